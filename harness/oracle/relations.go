// Package oracle holds declarative clause checkers. They never re-implement
// the resolver or the queue: they state what the property demands of an
// observed (before, mutation, after) triple and accept every outcome a correct
// implementation may choose.
package oracle

import (
	"fmt"
	"slices"

	am "github.com/pancsta/asyncmachine-go/pkg/machine"
)

type set map[string]bool

func toSet(l []string) set {
	s := set{}
	for _, x := range l {
		s[x] = true
	}
	return s
}

// AddClosure returns Add*(base) under schema together with the Add distance of
// every member (0 for base members).
func AddClosure(schema am.Schema, base []string) map[string]int {
	dist := map[string]int{}
	queue := []string{}
	for _, b := range base {
		if _, ok := dist[b]; !ok {
			dist[b] = 0
			queue = append(queue, b)
		}
	}
	for len(queue) > 0 {
		x := queue[0]
		queue = queue[1:]
		for _, a := range schema[x].Add {
			if _, ok := schema[a]; !ok {
				continue
			}
			if _, ok := dist[a]; !ok {
				dist[a] = dist[x] + 1
				queue = append(queue, a)
			}
		}
	}
	return dist
}

// RelViolation is one failed clause of the relations property.
type RelViolation struct {
	Clause string // R1..R5
	State  string
	Other  string
	// AddDist is the Add distance of State from called ∪ before (-1 unknown).
	AddDist int
	What    string
}

// CheckRelations judges one accepted, fault-free, non-check transition.
// schema is the parsed schema (Machine.Schema()).
func CheckRelations(
	schema am.Schema, mutType string, called, before, after []string,
	isAuto bool,
) []RelViolation {
	var ret []RelViolation
	bef, aft, cal := toSet(before), toSet(after), toSet(called)

	base := slices.Clone(before)
	if mutType != "remove" {
		base = append(base, called...)
	}
	cand := AddClosure(schema, base)
	inCandOrAfter := func(x string) bool {
		_, ok := cand[x]
		return ok || aft[x]
	}
	dist := func(s string) int {
		if d, ok := cand[s]; ok {
			return d
		}
		return -1
	}

	// R1 Require closure
	for _, s := range after {
		for _, r := range schema[s].Require {
			if !aft[r] {
				ret = append(ret, RelViolation{"R1", s, r, dist(s), fmt.Sprintf(
					"%s is active but its Require %s is not", s, r)})
			}
		}
	}
	// R2 no active remover + victim
	for _, a := range after {
		for _, b := range schema[a].Remove {
			if a != b && aft[b] {
				ret = append(ret, RelViolation{"R2", a, b, dist(b), fmt.Sprintf(
					"%s and %s both active although %s Removes %s", a, b, a, b)})
			}
		}
	}
	excused := func(d string) bool {
		// removed by a candidate or active state
		for x := range schema {
			if x != d && inCandOrAfter(x) && slices.Contains(schema[x].Remove, d) {
				return true
			}
		}
		for _, r := range schema[d].Require {
			if !aft[r] {
				return true
			}
		}
		if mutType == "remove" && cal[d] {
			return true
		}
		return false
	}
	// R3 Add targets of activated states
	for _, s := range after {
		activated := !bef[s] ||
			(schema[s].Multi && cal[s] && mutType != "remove")
		if !activated {
			continue
		}
		for _, d := range schema[s].Add {
			if _, ok := schema[d]; !ok {
				continue
			}
			if aft[d] || excused(d) {
				continue
			}
			ret = append(ret, RelViolation{"R3", s, d, dist(s), fmt.Sprintf(
				"%s was activated but its Add target %s is inactive and not "+
					"excluded by a Remove relation or a missing Require", s, d)})
		}
	}
	// R4 activations need a justification
	for _, s := range after {
		if bef[s] {
			continue
		}
		if _, ok := cand[s]; ok {
			continue
		}
		if isAuto && schema[s].Auto {
			continue
		}
		ret = append(ret, RelViolation{"R4", s, "", -1, fmt.Sprintf(
			"%s became active without being called, auto-added or reachable "+
				"through Add relations", s)})
	}
	// R5 deactivations need a justification
	for _, s := range before {
		if aft[s] {
			continue
		}
		if mutType == "remove" && cal[s] {
			continue
		}
		if mutType == "set" && !cal[s] {
			continue
		}
		ok := false
		for x := range cand {
			if x != s && slices.Contains(schema[x].Remove, s) {
				ok = true
				break
			}
		}
		if !ok {
			for _, r := range schema[s].Require {
				if !aft[r] {
					ok = true
					break
				}
			}
		}
		if !ok {
			ret = append(ret, RelViolation{"R5", s, "", -1, fmt.Sprintf(
				"%s became inactive without being called for removal, left out "+
					"of a Set, removed by a Remove relation or losing a Require", s)})
		}
	}
	return ret
}
