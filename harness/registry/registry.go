// Package registry lists the schemas shipped by the repository. reg_gen.go is
// generated at check time by cmd/c19gen.
package registry

import (
	am "github.com/pancsta/asyncmachine-go/pkg/machine"
)

type Entry struct {
	Pkg      string
	Var      string
	Schema   am.Schema
	Names    am.S
	NamesVar string
}

var Schemas []Entry
var Skipped []string

// namesOf extracts the typed state-name list.
func namesOf(v any) am.S {
	if n, ok := v.(interface{ Names() am.S }); ok {
		return n.Names()
	}
	return nil
}
