package main

import (
	"context"
	"fmt"
	"math/rand/v2"
	"os"
	"path/filepath"
	"sync"
	"time"

	amhist "github.com/pancsta/asyncmachine-go/pkg/history"
	amhbadger "github.com/pancsta/asyncmachine-go/pkg/history/badger"
	amhbbolt "github.com/pancsta/asyncmachine-go/pkg/history/bbolt"
	amhgorm "github.com/pancsta/asyncmachine-go/pkg/history/gorm"
	am "github.com/pancsta/asyncmachine-go/pkg/machine"

	"verif/core"
	"verif/gen"
)

// store is an opened persistent backend.
type store struct {
	mem   amhist.MemoryApi
	close func()
	errs  *errSink
	// pending: records queued in the backend, not yet handed to a writer
	pending func() int
	// written: records this instance committed so far (nil: count the visible
	// ones); firstId: NextId when it was opened
	written func() int
	firstId int
}

// quiesce waits until every record handed to a writer is visible, so that no
// two forked batch writes are ever in flight together (the paced scenarios).
func (s *store) quiesce() bool {
	for i := 0; i < 1500; i++ {
		next := int(s.mem.MachineRecord().NextId)
		if s.written != nil {
			// bbolt / badger answer queries from the newest ID downwards and show
			// nothing while a batch is pending: use their commit counter
			if s.written() >= next-s.firstId-s.pending() {
				return true
			}
		} else if l, err := list(s.mem); err == nil && len(l) >= next-1-s.pending() {
			return true
		}
		time.Sleep(2 * time.Millisecond)
	}
	return false
}

type errSink struct {
	mx   sync.Mutex
	errs []error
}

func (e *errSink) add(err error) {
	e.mx.Lock()
	e.errs = append(e.errs, err)
	e.mx.Unlock()
}

func (e *errSink) first() error {
	e.mx.Lock()
	defer e.mx.Unlock()
	if len(e.errs) == 0 {
		return nil
	}
	return e.errs[0]
}

func openStore(backend, dir string, m am.Api, cfg amhist.BaseConfig, batch int32) (*store, error) {
	ctx := context.Background()
	sink := &errSink{}
	name := filepath.Join(dir, "amhist")
	switch backend {
	case "bbolt":
		db, err := amhbbolt.NewDb(name)
		if err != nil {
			return nil, err
		}
		mem, err := amhbbolt.NewMemory(ctx, db, m, amhbbolt.Config{BaseConfig: cfg, QueueBatch: batch}, sink.add)
		if err != nil {
			_ = db.Close()
			return nil, err
		}
		return &store{mem: mem, errs: sink, close: func() { _ = mem.Dispose(); _ = db.Close() },
			pending: func() int { return int(mem.SavePending.Load()) }, written: func() int { return int(mem.Saved.Load()) },
			firstId: int(mem.MachineRecord().NextId)}, nil
	case "badger":
		db, err := amhbadger.NewDb(name)
		if err != nil {
			return nil, err
		}
		mem, err := amhbadger.NewMemory(ctx, db, m, amhbadger.Config{BaseConfig: cfg, QueueBatch: batch}, sink.add)
		if err != nil {
			_ = db.Close()
			return nil, err
		}
		return &store{mem: mem, errs: sink, close: func() { _ = mem.Dispose(); _ = db.Close() },
			pending: func() int { return int(mem.SavePending.Load()) }, written: func() int { return int(mem.Saved.Load()) },
			firstId: int(mem.MachineRecord().NextId)}, nil
	case "sqlite":
		db, sqlDb, err := amhgorm.NewDb(name, false)
		if err != nil {
			return nil, err
		}
		mem, err := amhgorm.NewMemory(ctx, db, m, amhgorm.Config{BaseConfig: cfg, QueueBatch: batch}, sink.add)
		if err != nil {
			_ = sqlDb.Close()
			return nil, err
		}
		return &store{mem: mem, errs: sink, close: func() { _ = mem.Dispose(); _ = sqlDb.Close() },
			pending: func() int { return int(mem.SavePending.Load()) }}, nil
	}
	return nil, fmt.Errorf("unknown backend %s", backend)
}

// settle: Sync, then wait until the visible record count stopped changing
// over consecutive polls (write-behind). No deadline decides anything: the
// loop ends on stability; the cap only bounds the wait.
func settle(mem amhist.MemoryApi) (int, error) {
	if err := mem.Sync(); err != nil {
		return 0, err
	}
	// NextId-1 records were handed to the backend so far; while fewer are
	// visible (and MaxRecords does not explain it) the writer may still be
	// busy: wait longer before calling the count settled.
	want := int(mem.MachineRecord().NextId) - 1
	if max := mem.Config().MaxRecords; max > 0 && want > max {
		want = max
	}
	last, stable := -1, 0
	for i := 0; i < 1500; i++ {
		time.Sleep(15 * time.Millisecond)
		l, err := list(mem)
		if err != nil {
			return 0, err
		}
		if len(l) == last {
			stable++
		} else {
			stable = 0
			last = len(l)
		}
		if stable >= 6 && (last >= want || stable >= 400) {
			break
		}
	}
	return last, nil
}

func genBatch(r *rand.Rand) int32 {
	switch r.IntN(3) {
	case 0:
		return 1
	case 1:
		return int32(2 + r.IntN(20))
	}
	return int32(20 + r.IntN(80))
}

func runBack(res *core.CaseResult, c core.CaseDesc, p caseP) {
	r := gen.NewRand(c.Seed, 19)
	w := newWorld(r, "c17back")
	defer w.m.Dispose()
	cfg := genCfg(r, p.Class, w.spec.Names)
	cfg.Log = os.Getenv("C17_LOG") != ""
	dir := tmpDir(c)
	defer os.RemoveAll(dir)
	batch := genBatch(r)
	st, err := openStore(p.Backend, dir, w.m, cfg, batch)
	if err != nil {
		res.Violate("C17/"+p.Backend+"/new", fmt.Sprintf("NewMemory(%s): %v", cfgStr(cfg), err), nil)
		return
	}
	defer st.close()
	n := 20 + r.IntN(280)
	if cfg.MaxRecords > 0 {
		// enough to exceed the bound several times over if rotation stopped
		n = 4 * bound(cfg.MaxRecords, batch)
	}
	w.genOps(r, n)
	w.run(0, len(w.ops))
	// "Sync ... making those new records appear in queries": asked right when
	// it returns (unbounded logs only: rotation may hide records at any time)
	if cfg.MaxRecords == 0 {
		res.Evals++
		if err := st.mem.Sync(); err == nil {
			want := int(st.mem.MachineRecord().NextId) - 1
			if l, err := list(st.mem); err == nil && len(l) < want {
				res.Violate("C17/"+p.Backend+"/sync/not-visible-at-return", fmt.Sprintf(
					"Sync returned and FindLatest shows %d records, %d had been handed to the backend (batch %d; %s)", len(l), want, batch, cfgStr(cfg)), nil)
				return
			}
		}
	}
	_, err = settle(st.mem)
	// rotation is evaluated when a batch is written, against counters that the
	// write-behind goroutine updates: after a burst it needs further batches to
	// get its chance. Three more batches, each settled, before the bound is
	// judged.
	for round := 0; err == nil && cfg.MaxRecords > 0 && round < 3; round++ {
		// a full batch of new records (the configuration may filter most
		// transitions out)
		start := st.mem.MachineRecord().NextId
		for k := 0; k < 200 && st.mem.MachineRecord().NextId < start+uint64(batch)+1; k++ {
			from := len(w.ops)
			w.ops = append(w.ops, gen.RandHistory(r, w.spec.Names, []string{"add", "remove", "toggle"}, 20)...)
			for i := from; i < len(w.ops); i++ {
				w.ops[i].NoArgs = false
			}
			w.run(from, len(w.ops))
		}
		_, err = settle(st.mem)
	}
	// still above the bound: does the rotation work at all? A paced stretch of
	// new records (Sync after every few, nothing in flight when the next GC is
	// decided) tells a rotation that lagged behind the burst from one that is
	// broken.
	if err == nil && cfg.MaxRecords > 0 {
		bnd := bound(cfg.MaxRecords, batch)
		if l, e := list(st.mem); e == nil && len(l) > bnd {
			before := len(l)
			start := st.mem.MachineRecord().NextId
			for k := 0; k < 600 && st.mem.MachineRecord().NextId < start+uint64(2*cfg.MaxRecords)+uint64(batch)+2; k++ {
				from := len(w.ops)
				w.ops = append(w.ops, gen.RandHistory(r, w.spec.Names, []string{"add", "remove", "toggle"}, 5)...)
				for i := from; i < len(w.ops); i++ {
					w.ops[i].NoArgs = false
				}
				w.run(from, len(w.ops))
				_ = st.mem.Sync()
			}
			_, err = settle(st.mem)
			if l2, e := list(st.mem); err == nil && e == nil && len(l2) <= bnd {
				res.Violate("C17/"+p.Backend+"/bound/gc-lagged-after-burst", fmt.Sprintf(
					"%d records were kept with MaxRecords=%d after a burst had ended and three more batches had been written (asserted bound %d); a paced stretch of further records brought the log back to %d (batch %d; %s)",
					before, cfg.MaxRecords, bnd, len(l2), batch, cfgStr(cfg)), nil)
			}
		}
	}
	if err != nil {
		res.Violate("C17/"+p.Backend+"/sync/error", fmt.Sprintf("Sync / FindLatest failed: %v (%s)", err, cfgStr(cfg)), nil)
		return
	}
	res.Count("batch_sizes_sum", int64(batch))
	judgeB(res, w, p.Backend, st.mem, cfg, p.Class, r, bound(cfg.MaxRecords, batch))
	if err := st.errs.first(); err != nil {
		res.Violate("C17/"+p.Backend+"/onErr/"+errClass(err), fmt.Sprintf("the backend reported: %v (%s, batch %d)", err, cfgStr(cfg), batch), nil)
	}
}

// runResume: a persistent history that is stopped and opened again for the
// same machine continues the log: no record is lost, duplicated or
// overwritten.
func runResume(res *core.CaseResult, c core.CaseDesc, p caseP) {
	r := gen.NewRand(c.Seed, 23)
	w := newWorld(r, "c17res")
	if p.Class != "burst" {
		w.m.Dispose()
		w = newWorldAuto(r, "c17res", 0)
	}
	defer w.m.Dispose()
	cfg := genCfg(r, "plain", w.spec.Names)
	cfg.MaxRecords = 0
	cfg.TrackRejected = false
	dir := tmpDir(c)
	defer os.RemoveAll(dir)
	batch := int32(1 + r.IntN(12))
	w.genOps(r, 40+r.IntN(120))
	// the first leg ends on a PRNG record count, batch multiples included
	cut := 1 + r.IntN(len(w.ops)-2)
	if r.IntN(2) == 0 {
		cut = int(batch) * (1 + r.IntN(3))
		if cut >= len(w.ops) {
			cut = len(w.ops) / 2
		}
	}
	st, err := openStore(p.Backend, dir, w.m, cfg, batch)
	if err != nil {
		res.Violate("C17/"+p.Backend+"/new", fmt.Sprintf("NewMemory: %v", err), nil)
		return
	}
	paced := p.Class != "burst"
	mode := "resume"
	if !paced {
		mode = "resume-burst"
	}
	runLeg := func(st *store, from, to int) bool {
		if !paced {
			w.run(from, to)
			return true
		}
		for i := from; i < to; i++ {
			w.run(i, i+1)
			if !st.quiesce() {
				return false
			}
		}
		return true
	}
	if !runLeg(st, 0, cut) {
		st.close()
		res.Inconclusive = "the backend did not show the records handed to its writer"
		return
	}
	n1, err := settle(st.mem)
	if err != nil {
		st.close()
		res.Violate("C17/"+p.Backend+"/sync/error", fmt.Sprintf("Sync failed: %v", err), nil)
		return
	}
	st.close()
	st2, err := openStore(p.Backend, dir, w.m, cfg, batch)
	if err != nil {
		res.Violate("C17/"+p.Backend+"/resume/reopen", fmt.Sprintf("reopening the store failed: %v", err), nil)
		return
	}
	defer st2.close()
	// the reopened history has to continue the ID sequence
	res.Evals++
	if got := st2.mem.MachineRecord().NextId; int(got) != n1+1 {
		res.Violate("C17/"+p.Backend+"/"+mode+"/next-id", fmt.Sprintf("after %d synced and visible records the reopened history continues at NextId=%d, want %d (batch %d, first leg %d ops; %s)",
			n1, got, n1+1, batch, cut, cfgStr(cfg)), nil)
		// IDs overlap from here on: the rest of the log is not judged
		return
	}
	w.reopenIdx = n1
	if !runLeg(st2, cut, len(w.ops)) {
		res.Inconclusive = "the backend did not show the records handed to its writer"
		return
	}
	if _, err := settle(st2.mem); err != nil {
		res.Violate("C17/"+p.Backend+"/sync/error", fmt.Sprintf("Sync failed after reopen: %v", err), nil)
		return
	}
	res.Count("resume_first_leg_records", int64(n1))
	judgeB(res, w, p.Backend+"/"+mode, st2.mem, cfg, mode, r, 0)
	res.Key(p.Backend, mode, cut%int(batch) == 0)
}

// errClass: a stable class for an error text (digits and quoted parts dropped).
func errClass(err error) string {
	t := err.Error()
	out := make([]rune, 0, 40)
	for _, c := range t {
		if c >= '0' && c <= '9' {
			continue
		}
		if c == ' ' || c == ':' || c == '/' {
			c = '-'
		}
		out = append(out, c)
		if len(out) >= 40 {
			break
		}
	}
	return string(out)
}

// bound: what "bounded by MaxRecords" is taken to mean for a write-behind
// backend whose GC runs after 1.5*MaxRecords new records: a small multiple of
// MaxRecords plus the batches in flight.
func bound(max int, batch int32) int {
	if max <= 0 {
		return 0
	}
	return 4*max + 2*int(batch) + 10
}
