// C17: history is a faithful, bounded log; queries and Export/Import mean what
// they say.
package main

import (
	"context"
	"encoding/json"
	"fmt"
	"math/rand/v2"
	"os"
	"path/filepath"
	"slices"
	"strings"
	"time"

	amhist "github.com/pancsta/asyncmachine-go/pkg/history"
	am "github.com/pancsta/asyncmachine-go/pkg/machine"

	"verif/core"
	"verif/gen"
	"verif/rec"
)

type eng struct{}

func (eng) Property() string { return "C17" }
func (eng) Level() string    { return "exploration" }
func (eng) Rule() string {
	return "cases: PRNG schemas of 2..6 states (relations, Multi, Auto) driven by PRNG mutation histories of 20..400 " +
		"mutations issued from one goroutine on a handler-less machine, under a PRNG tracking configuration " +
		"(Called / Changed allow- or block-list, TrackRejected, tracked subset, MaxRecords 1..50 or unbounded, " +
		"StoreTransitions, QueueBatch 1..100). An independent tracer on the same machine records every transition; " +
		"the reference log is the documented matching rule applied to it. kinds: mem (in-memory backend, exact), " +
		"back/<backend> (bbolt, badger, sqlite against the same reference, after Sync and a settled record count), " +
		"resume (stop and reopen a persistent history), crash (a child process tracking into a persistent store is killed " +
		"with SIGKILL at a PRNG-chosen paced Sync report, the store is reopened and compared with the reference), " +
		"eximport (Machine.Export / Import). Queries: every state condition and, with both ends taken from two records, a range " +
		"on HTime, MTimeSum, one of MTimeTrackedSum / MTimeDiff / MTimeTrackedDiff / MTimeRecordDiff / MachTick, and the tick of one " +
		"tracked state (MTimeStates); the ends themselves are not judged. An evaluation is one " +
		"record or one query answer judged; a distinct item is a distinct (config class, query class, backend)."
}
func (eng) Assumptions() []string {
	return []string{
		"the matching rule is asserted for one list at a time (Called or Changed); with both set only integrity is asserted",
		"Activated/Deactivated are asserted on records where 'changed in this transition' and 'differs from the previous record' agree",
		"range ends are taken from recorded values; records sitting exactly on an end may or may not be returned",
		"write-behind backends are compared after Sync and after the visible record count stopped changing",
	}
}

// ---------- case descriptors

type caseP struct {
	Backend string `json:"backend,omitempty"`
	// Cfg class forces a configuration family (see genCfg)
	Class string `json:"class"`
}

func mk(id, kind string, seed uint64, p any) core.CaseDesc {
	var raw json.RawMessage
	if p != nil {
		raw, _ = json.Marshal(p)
	}
	return core.CaseDesc{ID: id, Kind: kind, Seed: seed, P: raw}
}

var classes = []string{"plain", "called-allow1", "called-block1", "changed-allow1", "changed-block1", "called-allowN",
	"changed-blockN", "both", "rejected", "rotate", "subset"}

var backends = []string{"bbolt", "badger", "sqlite"}

func (eng) Cases(seed uint64, tier string) []core.CaseDesc {
	var cs []core.CaseDesc
	per := 12
	perBack := 3
	if tier == "thorough" {
		per = 150
		perBack = 25
	}
	for _, cl := range classes {
		for i := 0; i < per; i++ {
			cs = append(cs, mk(fmt.Sprintf("mem/%s/%03d", cl, i), "mem", seed*1000003+uint64(i)*131+uint64(len(cl)), caseP{Class: cl}))
		}
		for _, b := range backends {
			for i := 0; i < perBack; i++ {
				cs = append(cs, mk(fmt.Sprintf("back/%s/%s/%03d", b, cl, i), "back", seed*1000003+uint64(i)*257+uint64(len(cl)),
					caseP{Class: cl, Backend: b}))
			}
		}
	}
	for _, b := range backends {
		for i := 0; i < perBack*2; i++ {
			cs = append(cs, mk(fmt.Sprintf("resume/%s/%03d", b, i), "resume", seed*1000003+uint64(i)*521, caseP{Backend: b, Class: "paced"}))
			cs = append(cs, mk(fmt.Sprintf("resume-burst/%s/%03d", b, i), "resume", seed*1000003+uint64(i)*523, caseP{Backend: b, Class: "burst"}))
		}
	}
	n := 20
	if tier == "thorough" {
		n = 400
	}
	for i := 0; i < n; i++ {
		cs = append(cs, mk(fmt.Sprintf("eximport/%03d", i), "eximport", seed*1000003+uint64(i)*17, nil))
		if i < 2 {
			cs = append(cs, mk(fmt.Sprintf("eximport-restored/%03d", i), "eximport-restored", seed*1000003+uint64(i)*19, nil))
		}
	}
	nk := 3
	if tier == "thorough" {
		nk = 40
	}
	for _, b := range backends {
		for i := 0; i < nk; i++ {
			cs = append(cs, mk(fmt.Sprintf("crash/%s/%03d", b, i), "crash", seed*1000003+uint64(i)*733, caseP{Backend: b, Class: "plain"}))
		}
	}
	return cs
}

func (eng) CaseTimeout(tier string) time.Duration { return 120 * time.Second }

// ---------- workload

type world struct {
	spec  gen.SchemaSpec
	m     *am.Machine
	tr    *rec.Tracer
	names am.S
	ops   []gen.Op
	// reopenIdx: index (oldest first) of the first record written after a
	// persistent history was reopened; 0: never reopened
	reopenIdx int
	// firstIsFirst: the oldest record of the backend's list is the very first
	// matching transition (nothing was rotated out before it)
	firstIsFirst bool
}

func newWorld(r *rand.Rand, id string) *world { return newWorldAuto(r, id, 0.1) }

// newWorldAuto: pAuto = 0 gives a machine on which one mutation call makes at
// most one transition (no auto transition follows it), which the paced
// scenarios need: two records of one call are two forked writes in flight.
func newWorldAuto(r *rand.Rand, id string, pAuto float64) *world {
	spec := gen.RandSchema(r, gen.SchemaOpts{MinStates: 2, MaxStates: 6, PRequire: 0.08, PAdd: 0.08, PRemove: 0.12,
		PAuto: pAuto, PMulti: 0.25, AcyclicRequire: true})
	tr := rec.NewTracer("ref")
	tr.NoSample = true
	m := am.New(context.Background(), spec.Schema(), &am.Opts{Id: id, DontLogId: true, DontLogStackTrace: true,
		Tracers: []am.Tracer{tr}})
	return &world{spec: spec, m: m, tr: tr, names: m.StateNames()}
}

func (w *world) genOps(r *rand.Rand, n int) {
	kinds := []string{"add", "add", "remove", "remove", "set", "toggle", "canadd"}
	w.ops = gen.RandHistory(r, w.spec.Names, kinds, n)
	for i := range w.ops {
		w.ops[i].NoArgs = false
	}
}

func (w *world) run(from, to int) {
	for _, op := range w.ops[from:to] {
		rec.Apply(w.m, op)
	}
}

// genCfg draws a configuration of the given class.
func genCfg(r *rand.Rand, class string, names []string) amhist.BaseConfig {
	cfg := amhist.BaseConfig{}
	pick := func() string { return names[r.IntN(len(names))] }
	// tracked subset: everything, or a random non-empty subset
	cfg.TrackedStates = slices.Clone(names)
	cfg.StoreTransitions = true
	switch class {
	case "called-allow1":
		cfg.Called = am.S{pick()}
	case "called-block1":
		cfg.Called = am.S{pick()}
		cfg.CalledExclude = true
	case "changed-allow1":
		cfg.Changed = am.S{pick()}
	case "changed-block1":
		cfg.Changed = am.S{pick()}
		cfg.ChangedExclude = true
	case "called-allowN":
		cfg.Called = gen.RandSubset(r, names, false)
	case "changed-blockN":
		cfg.Changed = gen.RandSubset(r, names, false)
		cfg.ChangedExclude = true
	case "both":
		cfg.Called = am.S{pick()}
		cfg.CalledExclude = r.IntN(2) == 0
		cfg.Changed = am.S{pick()}
		cfg.ChangedExclude = r.IntN(2) == 0
	case "rejected":
		cfg.TrackRejected = true
	case "rotate":
		cfg.MaxRecords = 1 + r.IntN(50)
	case "subset":
		cfg.TrackedStates = gen.RandSubset(r, names, false)
	}
	if class != "rotate" && r.IntN(4) == 0 {
		cfg.MaxRecords = 1 + r.IntN(50)
	}
	if class != "subset" && class != "plain" && r.IntN(3) == 0 {
		cfg.TrackedStates = gen.RandSubset(r, names, false)
	}
	if class != "rejected" && r.IntN(5) == 0 {
		cfg.TrackRejected = true
	}
	if r.IntN(4) == 0 {
		cfg.StoreTransitions = false
	}
	return cfg
}

func cfgStr(c amhist.BaseConfig) string {
	return fmt.Sprintf("Called=%v excl=%v Changed=%v excl=%v TrackRejected=%v Tracked=%v Max=%d StoreTx=%v", c.Called, c.CalledExclude,
		c.Changed, c.ChangedExclude, c.TrackRejected, c.TrackedStates, c.MaxRecords, c.StoreTransitions)
}

// ---------- reference

type refRec struct {
	tx *rec.TxRec
	// tracked times in the order of the memory's own TrackedStates
	tracked am.Time
	sum     uint64
	changed []string
}

// matchRule: the documented rule for one list. ok=false when the
// configuration is outside what the godoc pins down (both lists set).
func matchRule(cfg amhist.BaseConfig, called, changed []string) (match, ok bool) {
	if len(cfg.Called) > 0 && len(cfg.Changed) > 0 {
		return false, false
	}
	any := func(list am.S, in []string) bool {
		for _, s := range list {
			if slices.Contains(in, s) {
				return true
			}
		}
		return false
	}
	if len(cfg.Called) > 0 {
		hit := any(cfg.Called, called)
		if cfg.CalledExclude {
			return !hit, true
		}
		// a list of several states "required": only asserted when all or none
		// were called
		if len(cfg.Called) > 1 && hit && !all(cfg.Called, called) {
			return false, false
		}
		return hit, true
	}
	if len(cfg.Changed) > 0 {
		hit := any(cfg.Changed, changed)
		if cfg.ChangedExclude {
			return !hit, true
		}
		if len(cfg.Changed) > 1 && hit && !all(cfg.Changed, changed) {
			return false, false
		}
		return hit, true
	}
	return true, true
}

func all(list am.S, in []string) bool {
	for _, s := range list {
		if !slices.Contains(in, s) {
			return false
		}
	}
	return true
}

// candidates: every transition a record may stem from (accepted, or rejected
// when TrackRejected; never checks), with must=true when the rule demands a
// record, and undecided=true when the rule is not pinned down.
type cand struct {
	refRec
	must, undecided bool
}

func reference(w *world, cfg amhist.BaseConfig, tracked am.S) []cand {
	var out []cand
	idx := w.m.Index(tracked)
	for _, tx := range w.tr.Snapshot() {
		if tx.IsCheck || !strings.Contains(tx.Callbacks, "E") {
			continue
		}
		if !tx.Accepted && !cfg.TrackRejected {
			continue
		}
		var changed []string
		for i := range tx.After {
			if i < len(tx.Before) && tx.After[i] != tx.Before[i] {
				changed = append(changed, w.names[i])
			}
		}
		m, ok := matchRule(cfg, tx.Called, changed)
		c := cand{refRec: refRec{tx: tx, tracked: tx.After.Filter(idx), sum: tx.After.Sum(nil), changed: changed}}
		if !ok {
			c.undecided = true
		} else if m {
			c.must = true
		} else {
			continue
		}
		out = append(out, c)
	}
	return out
}

func main() {
	if len(os.Args) > 1 && os.Args[1] == "-crashchild" {
		crashChildMain(os.Args[2:])
		return
	}
	core.Main(eng{})
}

func (e eng) Run(c core.CaseDesc, tier string) *core.CaseResult {
	res := &core.CaseResult{Case: c}
	var p caseP
	if c.P != nil {
		_ = json.Unmarshal(c.P, &p)
	}
	switch c.Kind {
	case "mem":
		runMem(res, c, p)
	case "back":
		runBack(res, c, p)
	case "resume":
		runResume(res, c, p)
	case "eximport-restored":
		runExImportRestored(res, c)
	case "eximport":
		runExImport(res, c)
	case "crash":
		runCrash(res, c, p)
	}
	return res
}

func tmpDir(c core.CaseDesc) string {
	d := filepath.Join("/verif/.build/tmp/c17", fmt.Sprintf("%d-%s", os.Getpid(), strings.ReplaceAll(c.ID, "/", "_")))
	_ = os.RemoveAll(d)
	_ = os.MkdirAll(d, 0o755)
	return d
}

// ---------- in-memory backend

func runMem(res *core.CaseResult, c core.CaseDesc, p caseP) {
	r := gen.NewRand(c.Seed, 17)
	w := newWorld(r, "c17mem")
	defer w.m.Dispose()
	cfg := genCfg(r, p.Class, w.spec.Names)
	var errs []error
	mem, err := amhist.NewMemory(context.Background(), nil, w.m, cfg, func(err error) { errs = append(errs, err) })
	if err != nil {
		res.Violate("C17/memory/new", fmt.Sprintf("NewMemory(%s): %v", cfgStr(cfg), err), nil)
		return
	}
	w.genOps(r, 20+r.IntN(380))
	w.run(0, len(w.ops))
	judge(res, w, "memory", mem, cfg, p.Class, r, true)
	if len(errs) > 0 {
		res.Violate("C17/memory/onErr", fmt.Sprintf("the backend reported %v", errs[0]), nil)
	}
}

// list fetches every record (newest first) with an unconditioned query.
func list(mem amhist.MemoryApi) ([]*amhist.MemoryRecord, error) {
	return mem.FindLatest(context.Background(), true, 0, amhist.Query{})
}

func timeEq(a, b am.Time) bool { return rec.TimeEq(a, b) }

// judge compares the backend with the reference. exact: the in-memory
// backend, where the cap is exact.
func judge(res *core.CaseResult, w *world, backend string, mem amhist.MemoryApi, cfg amhist.BaseConfig, class string, r *rand.Rand, exact bool) {
	judgeX(res, w, backend, mem, cfg, class, r, exact, 0)
}

// judgeB: a persistent backend, with the retained-record bound to assert.
func judgeB(res *core.CaseResult, w *world, backend string, mem amhist.MemoryApi, cfg amhist.BaseConfig, class string, r *rand.Rand, bnd int) {
	judgeX(res, w, backend, mem, cfg, class, r, false, bnd)
}

func judgeX(res *core.CaseResult, w *world, backend string, mem amhist.MemoryApi, cfg amhist.BaseConfig, class string, r *rand.Rand, exact bool, bnd int) {
	tracked := mem.Config().TrackedStates
	max := mem.Config().MaxRecords
	cands := reference(w, cfg, tracked)
	got, err := list(mem)
	if err != nil {
		res.Violate("C17/"+backend+"/list/error", fmt.Sprintf("FindLatest(no conditions) failed: %v (%s)", err, cfgStr(cfg)), nil)
		return
	}
	// oldest first
	recs := slices.Clone(got)
	slices.Reverse(recs)
	res.Count("records_seen", int64(len(recs)))
	res.Count("transitions_referenced", int64(len(cands)))
	ctxs := fmt.Sprintf("%s; schema %s; %d ops", cfgStr(cfg), w.spec.String(), len(w.ops))

	// 1. every record stems from a candidate, in execution order, once. Records
	// are embedded into the candidates from the newest end (without transition
	// ids several candidates can carry equal values; the latest embedding is the
	// most favourable one: it leaves the fewest unrecorded candidates between
	// kept ones).
	matched := make([]int, len(recs))
	ci := len(cands) - 1
	for i := len(recs) - 1; i >= 0; i-- {
		rc := recs[i]
		res.Evals++
		found := -1
		for j := ci; j >= 0; j-- {
			if recMatches(rc, cands[j], cfg.StoreTransitions) {
				found = j
				break
			}
		}
		if found < 0 {
			// is it a duplicate / reordering of a later one?
			kind := "no-such-transition"
			for j := ci + 1; j < len(cands); j++ {
				if recMatches(rc, cands[j], cfg.StoreTransitions) {
					kind = "duplicate-or-out-of-order"
					break
				}
			}
			res.Violate("C17/"+backend+"/record/"+kind, fmt.Sprintf("record #%d (of %d, oldest first) MTimeTracked=%v MTimeSum=%d tx=%s matches no transition before the next record's (%s)",
				i, len(recs), rc.Time.MTimeTracked, rc.Time.MTimeSum, txId(rc), ctxs), nil)
			return
		}
		matched[i] = found
		ci = found - 1
		// tracked times equal the machine's time after that transition
		cd := cands[found]
		if !timeEq(rc.Time.MTimeTracked, cd.tracked) || rc.Time.MTimeSum != cd.sum {
			res.Violate("C17/"+backend+"/record/times", fmt.Sprintf("record of tx %s has MTimeTracked=%v MTimeSum=%d, the machine had %v (tracked %v) sum %d (%s)",
				cd.tx.TxId, rc.Time.MTimeTracked, rc.Time.MTimeSum, cd.tx.After, cd.tracked, cd.sum, ctxs), nil)
			return
		}
	}
	// 2. bounded
	if max > 0 {
		res.Evals++
		if exact && len(recs) > max {
			res.Violate("C17/"+backend+"/bound", fmt.Sprintf("%d records kept with MaxRecords=%d (%s)", len(recs), max, ctxs), nil)
			return
		}
		if !exact && bnd > 0 && len(recs) > bnd {
			res.Violate("C17/"+backend+"/bound", fmt.Sprintf("%d records kept with MaxRecords=%d (asserted bound %d; %s)", len(recs), max, bnd, ctxs), nil)
		}
	}
	// 3. exactly the records the rule demands: the newest ones are all there,
	// no candidate that must be recorded is skipped between two kept records,
	// and (exact) the count is min(matching, MaxRecords)
	if len(cands) > 0 {
		res.Evals++
		must := 0
		undecided := false
		for _, cd := range cands {
			if cd.must {
				must++
			}
			undecided = undecided || cd.undecided
		}
		if len(recs) == 0 {
			if must > 0 {
				res.Violate("C17/"+backend+"/missing/all", fmt.Sprintf("no records although %d transitions match (%s)", must, ctxs), nil)
			}
			return
		}
		// holes between the oldest kept record and the end
		first := matched[0]
		kept := map[int]bool{}
		for _, j := range matched {
			kept[j] = true
		}
		for j := first; j < len(cands); j++ {
			if cands[j].must && !kept[j] {
				pos := "middle"
				if j > matched[len(matched)-1] {
					pos = "newest"
				}
				res.Violate("C17/"+backend+"/missing/"+pos, fmt.Sprintf("transition %s (%s %v, changed %v) matches the configuration but has no record, while older and/or newer ones do (%d records, %d matching transitions; %s)",
					cands[j].tx.TxId, cands[j].tx.Type, cands[j].tx.Called, cands[j].changed, len(recs), must, ctxs), nil)
				return
			}
		}
		for i, j := range matched {
			if !cands[j].must && !cands[j].undecided {
				res.Violate("C17/"+backend+"/extra", fmt.Sprintf("record #%d stems from transition %s which does not match (%s)", i, cands[j].tx.TxId, ctxs), nil)
				return
			}
		}
		if !undecided {
			want := must
			if max > 0 && want > max {
				want = max
			}
			if exact && len(recs) != want {
				res.Violate("C17/"+backend+"/count", fmt.Sprintf("%d records, want min(matching=%d, MaxRecords=%d) = %d (%s)", len(recs), must, max, want, ctxs), nil)
				return
			}
			if !exact && len(recs) < want {
				// not fatal for the rest of the judgement: the queries are judged
				// against the backend's own list
				which := "oldest-many"
				if len(recs) == want-1 {
					which = "oldest-one"
				}
				res.Violate("C17/"+backend+"/missing/"+which, fmt.Sprintf("%d records, but the newest min(matching=%d, MaxRecords=%d) = %d have to be kept (%s)", len(recs), must, max, want, ctxs), nil)
			}
		}
	}
	res.Key(backend, class, "list", len(recs) > 0, max > 0 && len(cands) > max)
	// 4. queries
	w.firstIsFirst = len(recs) > 0 && len(matched) > 0 && matched[0] == 0 && w.reopenIdx == 0
	judgeQueries(res, w, backend, mem, recs, ctxs, r)
}

func txId(rc *amhist.MemoryRecord) string {
	if rc.Transition != nil {
		return rc.Transition.TransitionId
	}
	return "?"
}

func recMatches(rc *amhist.MemoryRecord, cd cand, byId bool) bool {
	if byId && rc.Transition != nil && rc.Transition.TransitionId != "" {
		return rc.Transition.TransitionId == cd.tx.TxId
	}
	return rc.Time.MTimeSum == cd.sum && timeEq(rc.Time.MTimeTracked, cd.tracked) && rc.Time.MutType.String() == cd.tx.Type
}

// ---------- queries

// judgeQueries: FindLatest with state conditions and ranges returns precisely
// the records of the backend's own list that satisfy the query, newest first.
func judgeQueries(res *core.CaseResult, w *world, backend string, mem amhist.MemoryApi, recs []*amhist.MemoryRecord, ctxs string, r *rand.Rand) {
	if len(recs) == 0 {
		return
	}
	tracked := mem.Config().TrackedStates
	ti := func(s string) int { return slices.Index(tracked, s) }
	pickT := func() string { return tracked[r.IntN(len(tracked))] }
	ctx := context.Background()
	// membership: 1 yes, 0 no, -1 either
	type q struct {
		name  string
		query amhist.Query
		mem   func(i int) int
	}
	var qs []q
	active := func(i int, s string) bool { return am.IsActiveTick(recs[i].Time.MTimeTracked[ti(s)]) }
	changedNow := func(i int, s string) bool {
		d := recs[i].Time.MTimeTrackedDiff
		return ti(s) < len(d) && d[ti(s)] > 0
	}
	for k := 0; k < 6; k++ {
		s1, s2 := pickT(), pickT()
		qs = append(qs,
			q{"Active", amhist.Query{Active: am.S{s1}}, func(i int) int { return b2i(active(i, s1)) }},
			q{"Inactive", amhist.Query{Inactive: am.S{s1}}, func(i int) int { return b2i(!active(i, s1)) }},
			q{"Active2", amhist.Query{Active: am.S{s1, s2}}, func(i int) int { return b2i(active(i, s1) && active(i, s2)) }},
			q{"Active+Inactive", amhist.Query{Active: am.S{s1}, Inactive: am.S{s2}}, func(i int) int {
				return b2i(active(i, s1) && !active(i, s2))
			}},
			q{"Activated", amhist.Query{Activated: am.S{s1}}, func(i int) int {
				// activated during the transition: active after it, and it was
				// inactive before. Two readings agree or the record is "either".
				if !active(i, s1) {
					return 0
				}
				byDiff := changedNow(i, s1)
				byPrev := i == 0 || !active(i-1, s1)
				if i == 0 {
					// a record without any predecessor: all four backends count an
					// active state as activated (so a backend that does not
					// disagrees with the others); after a rotation the predecessor
					// is only gone, not absent: either
					if w.firstIsFirst {
						return 1
					}
					return -1
				}
				if byDiff == byPrev {
					return b2i(byDiff)
				}
				return -1
			}},
			q{"Deactivated", amhist.Query{Deactivated: am.S{s1}}, func(i int) int {
				if active(i, s1) {
					return 0
				}
				byDiff := changedNow(i, s1)
				byPrev := i == 0 || active(i-1, s1)
				if i == 0 {
					if w.firstIsFirst {
						return 1
					}
					return -1
				}
				if byDiff == byPrev {
					return b2i(byDiff)
				}
				return -1
			}},
		)
		// ranges, ends taken from two records
		a, b := r.IntN(len(recs)), r.IntN(len(recs))
		if a > b {
			a, b = b, a
		}
		lo, hi := recs[a].Time, recs[b].Time
		if lo.MTimeSum > 0 && hi.MTimeSum > 0 {
			qs = append(qs, q{"MTimeSum", amhist.Query{Start: amhist.ConditionTime{MTimeSum: lo.MTimeSum}, End: amhist.ConditionTime{MTimeSum: hi.MTimeSum}},
				func(i int) int {
					v := recs[i].Time.MTimeSum
					if v == lo.MTimeSum || v == hi.MTimeSum {
						return -1
					}
					return b2i(v > lo.MTimeSum && v < hi.MTimeSum)
				}})
			qs = append(qs, q{"Active+MTimeSum", amhist.Query{Active: am.S{s1}, Start: amhist.ConditionTime{MTimeSum: lo.MTimeSum}, End: amhist.ConditionTime{MTimeSum: hi.MTimeSum}},
				func(i int) int {
					v := recs[i].Time.MTimeSum
					if !active(i, s1) || v < lo.MTimeSum || v > hi.MTimeSum {
						return 0
					}
					if v == lo.MTimeSum || v == hi.MTimeSum {
						return -1
					}
					return 1
				}})
		}
		// the other scalar ranges: both ends from records, ends themselves not judged
		type dim struct {
			name string
			get  func(t amhist.TimeRecord) uint64
			mk   func(lo, hi uint64) amhist.Query
		}
		dims := []dim{
			{"MTimeTrackedSum", func(t amhist.TimeRecord) uint64 { return t.MTimeTrackedSum }, func(lo, hi uint64) amhist.Query {
				return amhist.Query{Start: amhist.ConditionTime{MTimeTrackedSum: lo}, End: amhist.ConditionTime{MTimeTrackedSum: hi}}
			}},
			{"MTimeDiff", func(t amhist.TimeRecord) uint64 { return t.MTimeDiffSum }, func(lo, hi uint64) amhist.Query {
				return amhist.Query{Start: amhist.ConditionTime{MTimeDiff: lo}, End: amhist.ConditionTime{MTimeDiff: hi}}
			}},
			{"MTimeTrackedDiff", func(t amhist.TimeRecord) uint64 { return t.MTimeTrackedDiffSum }, func(lo, hi uint64) amhist.Query {
				return amhist.Query{Start: amhist.ConditionTime{MTimeTrackedDiff: lo}, End: amhist.ConditionTime{MTimeTrackedDiff: hi}}
			}},
			{"MTimeRecordDiff", func(t amhist.TimeRecord) uint64 { return t.MTimeRecordDiffSum }, func(lo, hi uint64) amhist.Query {
				return amhist.Query{Start: amhist.ConditionTime{MTimeRecordDiff: lo}, End: amhist.ConditionTime{MTimeRecordDiff: hi}}
			}},
			{"MachTick", func(t amhist.TimeRecord) uint64 { return uint64(t.MachTick) }, func(lo, hi uint64) amhist.Query {
				return amhist.Query{Start: amhist.ConditionTime{MachTick: uint32(lo)}, End: amhist.ConditionTime{MachTick: uint32(hi)}}
			}},
		}
		d := dims[r.IntN(len(dims))]
		dlo, dhi := d.get(*lo), d.get(*hi)
		if dlo > dhi {
			dlo, dhi = dhi, dlo
		}
		if dlo > 0 {
			qs = append(qs, q{d.name, d.mk(dlo, dhi), func(i int) int {
				v := d.get(*recs[i].Time)
				if v == dlo || v == dhi {
					return -1
				}
				return b2i(v > dlo && v < dhi)
			}})
		}
		// the tick of one tracked state between two of its values
		ti := slices.Index(tracked, s1)
		if ti >= 0 && ti < len(lo.MTimeTracked) && ti < len(hi.MTimeTracked) {
			tlo, thi := lo.MTimeTracked[ti], hi.MTimeTracked[ti]
			if tlo > thi {
				tlo, thi = thi, tlo
			}
			qs = append(qs, q{"MTimeStates", amhist.Query{Start: amhist.ConditionTime{MTimeStates: am.S{s1}, MTime: am.Time{tlo}},
				End: amhist.ConditionTime{MTimeStates: am.S{s1}, MTime: am.Time{thi}}}, func(i int) int {
				v := recs[i].Time.MTimeTracked[ti]
				if v == tlo || v == thi {
					return -1
				}
				return b2i(v > tlo && v < thi)
			}})
		}
		if !lo.HTime.IsZero() && !hi.HTime.IsZero() {
			qs = append(qs, q{"HTime", amhist.Query{Start: amhist.ConditionTime{HTime: lo.HTime}, End: amhist.ConditionTime{HTime: hi.HTime}},
				func(i int) int {
					v := recs[i].Time.HTime
					if v.Equal(lo.HTime) || v.Equal(hi.HTime) {
						return -1
					}
					return b2i(v.After(lo.HTime) && v.Before(hi.HTime))
				}})
		}
	}
	for _, qq := range qs {
		res.Evals++
		limit := 0
		out, err := mem.FindLatest(ctx, false, limit, qq.query)
		if err != nil {
			res.Violate("C17/"+backend+"/query/"+qq.name+"/error", fmt.Sprintf("FindLatest(%+v) failed: %v (%s)", qq.query, err, ctxs), nil)
			return
		}
		// walk newest first
		oi := 0
		bad := ""
		badIdx := -1
		for i := len(recs) - 1; i >= 0 && bad == ""; i-- {
			badIdx = i
			m := qq.mem(i)
			isNext := oi < len(out) && sameRecord(out[oi], recs[i])
			switch {
			case m == 1 && !isNext:
				bad = fmt.Sprintf("record #%d (oldest first; MTimeTracked=%v diff=%v HTime=%s) satisfies the query but is not returned at position %d", i, recs[i].Time.MTimeTracked, recs[i].Time.MTimeTrackedDiff, recs[i].Time.HTime.Format(time.RFC3339Nano), oi)
			case m == 0 && isNext:
				bad = fmt.Sprintf("record #%d (oldest first; MTimeTracked=%v diff=%v HTime=%s) does not satisfy the query but is returned", i, recs[i].Time.MTimeTracked, recs[i].Time.MTimeTrackedDiff, recs[i].Time.HTime.Format(time.RFC3339Nano))
			}
			if isNext {
				oi++
			}
		}
		if bad == "" && oi < len(out) {
			bad = fmt.Sprintf("%d returned records are not in the backend's own list or out of order", len(out)-oi)
		}
		if bad != "" {
			kind := "wrong"
			if w.reopenIdx > 0 && badIdx == w.reopenIdx {
				kind = "wrong-first-after-reopen"
			}
			// sqlite keeps times as RFC3339Nano text with trailing zeros of the
			// fraction trimmed and compares them as text
			if qq.name == "HTime" && badIdx >= 0 && badIdx < len(recs) {
				trimmed := func(t time.Time) bool { return t.Nanosecond()%10 == 0 }
				if trimmed(recs[badIdx].Time.HTime) || trimmed(qq.query.Start.HTime) || trimmed(qq.query.End.HTime) {
					kind = "wrong/text-compared-trimmed-fraction"
				}
			}
			res.Violate("C17/"+backend+"/query/"+qq.name+"/"+kind, fmt.Sprintf("FindLatest(%s) tracked=%v: %s; returned %d of %d (%s)", queryStr(qq.query), tracked, bad, len(out), len(recs), ctxs), nil)
			return
		}
		res.Key(backend, "query", qq.name, len(out) > 0, len(out) < len(recs))
	}
	// the *Between helpers agree with the query they stand for
	s1 := pickT()
	lo, hi := recs[0].Time.HTime.Add(-time.Hour), recs[len(recs)-1].Time.HTime.Add(time.Hour)
	anyAct, anyInact := false, false
	for i := range recs {
		if active(i, s1) {
			anyAct = true
		} else {
			anyInact = true
		}
	}
	res.Evals += 2
	if got := mem.ActiveBetween(ctx, s1, lo, hi); got != anyAct {
		res.Violate("C17/"+backend+"/between/Active", fmt.Sprintf("ActiveBetween(%s, whole log) = %v but a record with %s active exists = %v (%s)", s1, got, s1, anyAct, ctxs), nil)
		return
	}
	if got := mem.InactiveBetween(ctx, s1, lo, hi); got != anyInact {
		res.Violate("C17/"+backend+"/between/Inactive", fmt.Sprintf("InactiveBetween(%s, whole log) = %v but a record with %s inactive exists = %v (%s)", s1, got, s1, anyInact, ctxs), nil)
		return
	}
	res.Key(backend, "between", anyAct, anyInact)
}

func queryStr(q amhist.Query) string {
	var p []string
	if len(q.Active) > 0 {
		p = append(p, fmt.Sprintf("Active=%v", q.Active))
	}
	if len(q.Activated) > 0 {
		p = append(p, fmt.Sprintf("Activated=%v", q.Activated))
	}
	if len(q.Inactive) > 0 {
		p = append(p, fmt.Sprintf("Inactive=%v", q.Inactive))
	}
	if len(q.Deactivated) > 0 {
		p = append(p, fmt.Sprintf("Deactivated=%v", q.Deactivated))
	}
	if q.Start.MTimeSum > 0 {
		p = append(p, fmt.Sprintf("MTimeSum=[%d,%d]", q.Start.MTimeSum, q.End.MTimeSum))
	}
	if !q.Start.HTime.IsZero() {
		p = append(p, "HTime=["+q.Start.HTime.Format(time.RFC3339Nano)+" .. "+q.End.HTime.Format(time.RFC3339Nano)+"]")
	}
	return strings.Join(p, " ")
}

func sameRecord(a, b *amhist.MemoryRecord) bool {
	return a.Time.MTimeSum == b.Time.MTimeSum && timeEq(a.Time.MTimeTracked, b.Time.MTimeTracked) && a.Time.HTime.Equal(b.Time.HTime) &&
		a.Time.MutType == b.Time.MutType
}

func b2i(b bool) int {
	if b {
		return 1
	}
	return 0
}

// ---------- Export / Import

// runExImportRestored: a schema that defines the predefined MachineRestored
// state, which Import activates when it exists.
func runExImportRestored(res *core.CaseResult, c core.CaseDesc) {
	r := gen.NewRand(c.Seed, 19)
	sc := am.Schema{"A": {}, "B": {Multi: true}, am.StateMachineRestored: {Multi: r.IntN(2) == 0}}
	names := am.S{"A", "B", am.StateMachineRestored, am.StateException}
	m1 := am.New(context.Background(), sc, &am.Opts{Id: "c17exr", DontLogId: true})
	defer m1.Dispose()
	_ = m1.VerifyStates(names)
	m1.Add1("A", nil)
	for i := 0; i < 1+r.IntN(4); i++ {
		m1.Add1("B", nil)
	}
	exp, _, err := m1.Export()
	if err != nil {
		res.Violate("C17/export/error", fmt.Sprintf("Export failed: %v", err), nil)
		return
	}
	m2 := am.New(context.Background(), sc, &am.Opts{Id: "c17exr", DontLogId: true})
	defer m2.Dispose()
	done := make(chan error, 1)
	go func() { done <- m2.Import(exp) }()
	res.Evals++
	select {
	case err := <-done:
		if err != nil {
			res.Violate("C17/import/error", fmt.Sprintf("Import(Export()) failed: %v", err), nil)
			return
		}
	case <-time.After(10 * time.Second):
		res.Violate("C17/import/blocked/schema-defines-MachineRestored", "Import did not return within 10s on a machine whose schema defines MachineRestored",
			map[string]any{"dump": core.StackAll()})
		return
	}
	for _, n := range []string{"A", "B"} {
		if m1.Tick(n) != m2.Tick(n) {
			res.Violate("C17/import/ticks", fmt.Sprintf("after Import the tick of %s is %d, the exporting machine has %d", n, m2.Tick(n), m1.Tick(n)), nil)
			return
		}
	}
	if m2.MachineTick() != m1.MachineTick()+1 {
		res.Violate("C17/import/machine-tick", fmt.Sprintf("after Import MachineTick = %d, the exporting machine has %d (want one higher)", m2.MachineTick(), m1.MachineTick()), nil)
	}
	res.Key("eximport-restored", m2.Is1(am.StateMachineRestored))
}

func runExImport(res *core.CaseResult, c core.CaseDesc) {
	r := gen.NewRand(c.Seed, 18)
	w := newWorld(r, "c17ex")
	defer w.m.Dispose()
	// Export needs verified state names; any order of the names is a valid one
	order := slices.Clone(w.m.StateNames())
	r.Shuffle(len(order), func(i, j int) { order[i], order[j] = order[j], order[i] })
	if err := w.m.VerifyStates(order); err != nil {
		res.Inconclusive = "VerifyStates: " + err.Error()
		return
	}
	w.names = w.m.StateNames()
	w.genOps(r, 5+r.IntN(120))
	w.run(0, len(w.ops))
	exp, _, err := w.m.Export()
	if err != nil {
		res.Violate("C17/export/error", fmt.Sprintf("Export failed: %v", err), nil)
		return
	}
	m2 := am.New(context.Background(), w.spec.Schema(), &am.Opts{Id: "c17ex", DontLogId: true})
	defer m2.Dispose()
	// the importing machine may have its own verified order
	if r.IntN(2) == 0 {
		o2 := slices.Clone(m2.StateNames())
		r.Shuffle(len(o2), func(i, j int) { o2[i], o2[j] = o2[j], o2[i] })
		_ = m2.VerifyStates(o2)
	}
	res.Evals++
	if err := m2.Import(exp); err != nil {
		res.Violate("C17/import/error", fmt.Sprintf("Import(Export()) failed: %v (schema %s)", err, w.spec.String()), nil)
		return
	}
	t1, t2 := w.m.Time(nil), m2.Time(nil)
	// compare by state name
	for _, n := range w.names {
		if w.m.Tick(n) != m2.Tick(n) {
			res.Violate("C17/import/ticks", fmt.Sprintf("after Import the tick of %s is %d, the exporting machine has %d (%v vs %v; names %v vs %v)", n, m2.Tick(n), w.m.Tick(n),
				t2, t1, m2.StateNames(), w.names), nil)
			return
		}
	}
	if !slices.Equal(gen.Sorted(w.m.ActiveStates(nil)), gen.Sorted(m2.ActiveStates(nil))) {
		res.Violate("C17/import/active", fmt.Sprintf("after Import active = %v, the exporting machine has %v", m2.ActiveStates(nil), w.m.ActiveStates(nil)), nil)
		return
	}
	if m2.MachineTick() != w.m.MachineTick()+1 {
		res.Violate("C17/import/machine-tick", fmt.Sprintf("after Import MachineTick = %d, the exporting machine has %d (want one higher)", m2.MachineTick(), w.m.MachineTick()), nil)
		return
	}
	// the imported machine keeps working: one more mutation moves time forward
	before := m2.Time(nil).Sum(nil)
	m2.Toggle1(w.names[0], nil)
	if m2.Time(nil).Sum(nil) < before {
		res.Violate("C17/import/backwards", "time went backwards after a mutation on the imported machine", nil)
	}
	// further generations: export the imported machine into a fresh one, and
	// import twice into the same machine
	prev := m2
	for gen2 := 2; gen2 <= 2+r.IntN(3); gen2++ {
		if err := prev.VerifyStates(prev.StateNames()); err != nil {
			break
		}
		e2, _, err := prev.Export()
		if err != nil {
			res.Violate("C17/export/error", fmt.Sprintf("Export of generation %d failed: %v", gen2-1, err), nil)
			return
		}
		m3 := am.New(context.Background(), w.spec.Schema(), &am.Opts{Id: "c17ex", DontLogId: true})
		defer m3.Dispose()
		res.Evals++
		if err := m3.Import(e2); err != nil {
			res.Violate("C17/import/error", fmt.Sprintf("Import of generation %d failed: %v", gen2, err), nil)
			return
		}
		if r.IntN(3) == 0 {
			// the same snapshot again
			if err := m3.Import(e2); err != nil {
				res.Violate("C17/import/error", fmt.Sprintf("second Import of generation %d failed: %v", gen2, err), nil)
				return
			}
		}
		if m3.MachineTick() != prev.MachineTick()+1 {
			res.Violate("C17/import/machine-tick", fmt.Sprintf("generation %d: after Import MachineTick = %d, the exporting machine has %d (want one higher)", gen2, m3.MachineTick(), prev.MachineTick()), nil)
			return
		}
		for _, n := range w.names {
			if prev.Tick(n) != m3.Tick(n) {
				res.Violate("C17/import/ticks", fmt.Sprintf("generation %d: after Import the tick of %s is %d, the exporting machine has %d", gen2, n, m3.Tick(n), prev.Tick(n)), nil)
				return
			}
		}
		m3.Toggle1(w.names[r.IntN(len(w.names))], nil)
		prev = m3
	}
	res.Key("eximport", len(w.m.ActiveStates(nil)) > 0, w.m.MachineTick())
}
