package main

import (
	"bufio"
	"context"
	"fmt"
	"os"
	"os/exec"
	"strconv"
	"strings"
	"time"

	amhist "github.com/pancsta/asyncmachine-go/pkg/history"
	am "github.com/pancsta/asyncmachine-go/pkg/machine"

	"verif/core"
	"verif/gen"
	"verif/rec"
)

// The crash tier: a child process tracks a deterministic workload into a
// persistent store, reports after every paced Sync how many records it had
// handed over and seen back, and is killed (SIGKILL) at a PRNG-chosen report.
// The parent reopens the store and compares it with the reference it computes
// by running the same workload itself: the store has to open, hold at least
// the reported records, and be a hole-free prefix of the reference.

// crashWorld builds the deterministic machine + workload of a crash case.
func crashWorld(seed uint64) (*world, amhist.BaseConfig, int32) {
	r := gen.NewRand(seed, 29)
	w := newWorldAuto(r, "c17crash", 0)
	cfg := genCfg(r, "plain", w.spec.Names)
	cfg.MaxRecords = 0
	cfg.TrackRejected = false
	cfg.StoreTransitions = true
	batch := int32(1 + r.IntN(8))
	w.genOps(r, 60+r.IntN(120))
	return w, cfg, batch
}

// crashChildMain is the child: `c17 -crashchild <backend> <dir> <seed>`.
func crashChildMain(args []string) {
	if len(args) < 3 {
		os.Exit(2)
	}
	backend, dir := args[0], args[1]
	seed, _ := strconv.ParseUint(args[2], 10, 64)
	w, cfg, batch := crashWorld(seed)
	st, err := openStore(backend, dir, w.m, cfg, batch)
	if err != nil {
		fmt.Println("OPENERR", err)
		os.Exit(2)
	}
	out := bufio.NewWriter(os.Stdout)
	for i := range w.ops {
		w.run(i, i+1)
		// paced: one write in flight at most (several forked batch writes can
		// commit out of order - the known resume-burst finding - which is not
		// what this tier is about). The pace is set by what a query shows: the
		// backends' own saved counters move inside the write transaction,
		// before it commits, and a read transaction only sees committed data.
		want := int(st.mem.MachineRecord().NextId) - 1 - st.pending()
		seen := -1
		for k := 0; k < 3000; k++ {
			if st.pending() > 0 {
				// a partial batch stays in memory until Sync
				if err := st.mem.Sync(); err != nil {
					fmt.Fprintln(out, "SYNCERR", err)
					out.Flush()
					os.Exit(2)
				}
				want = int(st.mem.MachineRecord().NextId) - 1
			}
			if l, err := list(st.mem); err == nil && len(l) >= want {
				seen = len(l)
				break
			}
			time.Sleep(time.Millisecond)
		}
		if seen < 0 {
			fmt.Fprintln(out, "NOTVISIBLE")
			out.Flush()
			os.Exit(2)
		}
		if i%3 == 2 {
			fmt.Fprintf(out, "SYNCED %d %d\n", i+1, seen)
			out.Flush()
		}
	}
	fmt.Fprintln(out, "DONE")
	out.Flush()
	// wait to be killed
	time.Sleep(time.Hour)
}

func runCrash(res *core.CaseResult, c core.CaseDesc, p caseP) {
	r := gen.NewRand(c.Seed, 31)
	dir := tmpDir(c)
	defer os.RemoveAll(dir)
	// reference: the same workload, in this process
	wRef, cfg, batch := crashWorld(c.Seed)
	defer wRef.m.Dispose()
	mem, err := amhist.NewMemory(context.Background(), nil, wRef.m, cfg, func(error) {})
	if err != nil {
		res.Inconclusive = "reference memory: " + err.Error()
		return
	}
	wRef.run(0, len(wRef.ops))
	refRecs := mem.Export() // oldest first
	// child
	cmd := exec.Command(os.Args[0], "-crashchild", p.Backend, dir, strconv.FormatUint(c.Seed, 10))
	cmd.Stderr = nil
	stdout, err := cmd.StdoutPipe()
	if err != nil {
		res.Inconclusive = err.Error()
		return
	}
	if err := cmd.Start(); err != nil {
		res.Inconclusive = "child start: " + err.Error()
		return
	}
	killAt := 1 + r.IntN(len(wRef.ops)/3)
	reports, lastOps, lastRecs := 0, 0, 0
	sc := bufio.NewScanner(stdout)
	done := make(chan struct{})
	var childErr string
	go func() {
		defer close(done)
		for sc.Scan() {
			line := sc.Text()
			f := strings.Fields(line)
			if len(f) == 3 && f[0] == "SYNCED" {
				reports++
				lastOps, _ = strconv.Atoi(f[1])
				lastRecs, _ = strconv.Atoi(f[2])
				if reports >= killAt {
					_ = cmd.Process.Kill()
					return
				}
			} else if f[0] == "DONE" {
				_ = cmd.Process.Kill()
				return
			} else {
				childErr = line
				_ = cmd.Process.Kill()
				return
			}
		}
	}()
	select {
	case <-done:
	case <-time.After(90 * time.Second):
		_ = cmd.Process.Kill()
		res.Inconclusive = "the child made no progress"
		_ = cmd.Wait()
		return
	}
	_ = cmd.Wait()
	if childErr != "" {
		res.Inconclusive = "child: " + childErr
		return
	}
	res.Count("kills", 1)
	res.Count("records_reported_before_kill", int64(lastRecs))
	ctxs := fmt.Sprintf("%s, batch %d, killed after report %d (%d ops, %d records reported), %s", p.Backend, batch, reports, lastOps, lastRecs, cfgStr(cfg))
	// reopen with a machine of the same id and schema
	w2, _, _ := crashWorld(c.Seed)
	defer w2.m.Dispose()
	res.Evals++
	st, err := openStore(p.Backend, dir, w2.m, cfg, batch)
	if err != nil {
		res.Violate("C17/"+p.Backend+"/crash/reopen", fmt.Sprintf("the store does not open after the kill: %v (%s)", err, ctxs), nil)
		return
	}
	defer st.close()
	got, err := list(st.mem)
	if err != nil {
		res.Violate("C17/"+p.Backend+"/crash/list", fmt.Sprintf("FindLatest fails after the kill: %v (%s)", err, ctxs), nil)
		return
	}
	// oldest first
	n := len(got)
	res.Evals++
	if n < lastRecs {
		res.Violate("C17/"+p.Backend+"/crash/lost-synced", fmt.Sprintf("%d records after the kill, %d had been synced and visible before it (reopened NextId=%d; %s)", n, lastRecs,
			st.mem.MachineRecord().NextId, ctxs), nil)
		return
	}
	if n > len(refRecs) {
		res.Violate("C17/"+p.Backend+"/crash/extra", fmt.Sprintf("%d records after the kill, the whole workload makes %d (%s)", n, len(refRecs), ctxs), nil)
		return
	}
	for i := 0; i < n; i++ {
		res.Evals++
		rc := got[n-1-i]
		rf := refRecs[i]
		if rc.Time.MTimeSum != rf.Time.MTimeSum || !rec.TimeEq(rc.Time.MTimeTracked, rf.Time.MTimeTracked) || rc.Time.MutType != rf.Time.MutType {
			res.Violate("C17/"+p.Backend+"/crash/not-a-prefix", fmt.Sprintf("record %d after the kill has MTimeTracked=%v sum=%d, the workload's %d-th record has %v sum=%d (%s)", i, rc.Time.MTimeTracked,
				rc.Time.MTimeSum, i, rf.Time.MTimeTracked, rf.Time.MTimeSum, ctxs), nil)
			return
		}
	}
	if errv := st.errs.first(); errv != nil {
		res.Violate("C17/"+p.Backend+"/crash/onErr/"+errClass(errv), fmt.Sprintf("the reopened backend reported: %v (%s)", errv, ctxs), nil)
		return
	}
	res.Key(p.Backend, "crash", n == lastRecs, reports == killAt)
}

var _ = am.Executed
