// C10: RPC clock diffs round-trip exactly and the checksum catches any drift.
package main

import (
	"context"
	"encoding/json"
	"fmt"
	"math/rand/v2"
	"slices"
	"strings"
	"time"

	am "github.com/pancsta/asyncmachine-go/pkg/machine"
	arpc "github.com/pancsta/asyncmachine-go/pkg/rpc"

	"verif/core"
	"verif/gen"
	"verif/rpcloop"
)

type eng struct{}

func (eng) Property() string { return "C10" }
func (eng) Level() string    { return "exploration" }
func (eng) Rule() string {
	return "cases: one live Server+Client pair per configuration (state count 1..3 quick / 1..4 thorough, tracked set = all | every allow-list | " +
		"every skip-list, schema-synced | schema-less index space, deep | shallow), pushes disabled; for every vector of per-state tick " +
		"deltas 0..4 (exhaustive) the source performs that many real toggles, the server's own encoder derives the update against the " +
		"last pushed snapshot (VerifMakeUpdate) and the client's own decoder+checksum applies it (VerifClockUpdate); the mirror must then " +
		"equal the source on every synchronised state (parity for shallow) with the right queue and machine ticks. Drift: before a real " +
		"update the mirror is advanced by k ticks (k mod 256 != 0) through a consistent fake message; the real update must be rejected. " +
		"Boundary samples: queue-tick gaps around 2^16, tick deltas around 2^16 and 2^32 (TestMockClock + real transition), machine-tick " +
		"diffs via Import, chains of per-mutation updates, sources with history before the first handshake. Evaluation = one update " +
		"round-tripped; distinct non-trivial = distinct (config, start parities, delta vector) with a non-zero delta."
}
func (eng) Assumptions() []string {
	return []string{"the update is produced and applied by the production encoder/decoder through verif-tagged accessors; nothing is sent by the push ticker (PushInterval=0)",
		"only perturbations that are non-zero modulo 256 are required to be rejected, as the statement says"}
}

type cfg struct {
	N        int      `json:"n"`
	Allow    []string `json:"allow,omitempty"`
	Skip     []string `json:"skip,omitempty"`
	NoSchema bool     `json:"no_schema,omitempty"`
	Shallow  bool     `json:"shallow,omitempty"`
	Muts     bool     `json:"mutations,omitempty"`
	Kind     string   `json:"kind"` // deltas | boundary | history
}

func (c cfg) String() string {
	b, _ := json.Marshal(c)
	return string(b)
}

func (eng) Cases(seed uint64, tier string) []core.CaseDesc {
	maxN, reps := 3, 1
	if tier == "thorough" {
		maxN, reps = 5, 6
	}
	var cs []core.CaseDesc
	rep := 0
	add := func(c cfg) {
		raw, _ := json.Marshal(c)
		cs = append(cs, core.CaseDesc{ID: fmt.Sprintf("cfg/%04d", len(cs)), Kind: "cfg", Seed: seed + uint64(len(cs)) + uint64(rep)*1000003, P: raw})
	}
	for rep = 0; rep < reps; rep++ {
		for n := 1; n <= maxN; n++ {
			names := gen.AllNames[:n]
			subsets := gen.Subsets(names)
			for _, noSchema := range []bool{false, true} {
				for _, shallow := range []bool{false, true} {
					add(cfg{N: n, NoSchema: noSchema, Shallow: shallow, Kind: "deltas"})
					for _, s := range subsets {
						if len(s) == n {
							continue
						}
						add(cfg{N: n, Allow: s, NoSchema: noSchema, Shallow: shallow, Kind: "deltas"})
						add(cfg{N: n, Skip: s, NoSchema: noSchema, Shallow: shallow, Kind: "deltas"})
					}
				}
				add(cfg{N: n, NoSchema: noSchema, Muts: true, Kind: "deltas"})
			}
		}
	}
	rep = 0
	for _, noSchema := range []bool{false, true} {
		add(cfg{N: 3, NoSchema: noSchema, Kind: "boundary"})
		add(cfg{N: 3, Allow: []string{"A", "C"}, NoSchema: noSchema, Kind: "boundary"})
		add(cfg{N: 2, NoSchema: noSchema, Kind: "history"})
	}
	return cs
}

func (eng) CaseTimeout(string) time.Duration { return 10 * time.Minute }

type world struct {
	res     *core.CaseResult
	cfg     cfg
	src     *am.Machine
	p       *rpcloop.Pair
	names   []string
	tracked []string
	// failed: the first violation ends the case (a broken mirror only produces
	// follow-up noise)
	failed bool
}

func (w *world) ctx(extra map[string]any) map[string]any {
	m := map[string]any{"config": w.cfg, "tracked": w.tracked, "source_time": w.src.Time(nil), "source_qtick": w.src.QueueTick(),
		"source_machtick": w.src.MachineTick(), "mirror_time": w.p.C.NetMach.Time(nil), "mirror_states": w.p.C.NetMach.StateNames(),
		"mirror_qtick": w.p.C.NetMach.QueueTick(), "mirror_machtick": w.p.C.NetMach.MachineTick()}
	for k, v := range extra {
		m[k] = v
	}
	return m
}

func mode(c cfg) string {
	m := "deep"
	if c.Shallow {
		m = "shallow"
	}
	if c.Muts {
		m = "per-mutation"
	}
	if c.NoSchema {
		m += "/no-schema"
	} else {
		m += "/schema"
	}
	switch {
	case c.Allow != nil:
		m += "/allow-list"
	case c.Skip != nil:
		m += "/skip-list"
	default:
		m += "/all"
	}
	return m
}

// compare checks mirror == source on tracked states. Returns a description of
// the first difference.
func (w *world) compare() string {
	nm := w.p.C.NetMach
	for _, s := range w.tracked {
		st, mt := w.src.Tick(s), nm.Tick(s)
		if w.cfg.Shallow {
			if st%2 != mt%2 {
				return fmt.Sprintf("parity of %s: source tick %d, mirror tick %d", s, st, mt)
			}
			if nm.Is1(s) != w.src.Is1(s) {
				return fmt.Sprintf("activity of %s: source %v, mirror %v", s, w.src.Is1(s), nm.Is1(s))
			}
			continue
		}
		if st != mt {
			return fmt.Sprintf("tick of %s: source %d, mirror %d", s, st, mt)
		}
		if nm.Is1(s) != w.src.Is1(s) {
			return fmt.Sprintf("activity of %s: source %v, mirror %v (ticks equal %d)", s, w.src.Is1(s), nm.Is1(s), st)
		}
	}
	if nm.QueueTick() != w.src.QueueTick() {
		return fmt.Sprintf("queue tick: source %d, mirror %d", w.src.QueueTick(), nm.QueueTick())
	}
	if nm.MachineTick() != w.src.MachineTick() {
		return fmt.Sprintf("machine tick: source %d, mirror %d", w.src.MachineTick(), nm.MachineTick())
	}
	return ""
}

// roundTrip derives and applies one update. what describes the step.
func (w *world) roundTrip(what string, keyParts ...any) bool {
	res := w.res
	res.Evals++
	var accepted bool
	var msg any
	if w.cfg.Muts {
		upd, _ := w.p.S.VerifMakeUpdateMutations()
		if upd == nil {
			return true
		}
		msg = upd
		accepted = w.p.C.VerifClockUpdateMutations(upd)
	} else {
		upd, _ := w.p.S.VerifMakeUpdate()
		if upd == nil {
			return true
		}
		msg = upd
		accepted = w.p.C.VerifClockUpdate(upd)
	}
	if len(keyParts) > 0 {
		res.Key(append([]any{w.cfg.String()}, keyParts...)...)
	}
	ok := true
	cls := mode(w.cfg) + "/" + w.cfg.Kind
	if w.cfg.Kind == "boundary" {
		// the structural feature: which message field the delta does not fit
		switch {
		case strings.HasPrefix(what, "queue-tick gap"):
			cls = "field-width/queue-tick-gap>=2^16-1"
		case strings.HasPrefix(what, "tick jump") && strings.Contains(what, "429496"):
			cls = "field-width/tick-delta>=2^32-1"
		case strings.HasPrefix(what, "tick jump"):
			cls = mode(w.cfg) + "/tick-delta-2^16"
		case strings.HasPrefix(what, "machine tick"):
			cls = mode(w.cfg) + "/machine-tick"
		}
	}
	if !accepted {
		res.Violate("C10/rejected/"+cls, fmt.Sprintf(
			"the server-derived update for step %q was rejected by the client's checksum although the mirror held the previous snapshot", what),
			w.ctx(map[string]any{"step": what, "update": msg}))
		ok = false
	} else if d := w.compare(); d != "" {
		res.Violate("C10/wrong-after-update/"+cls, fmt.Sprintf(
			"after applying the accepted update for step %q the mirror differs from the source: %s", what, d),
			w.ctx(map[string]any{"step": what, "update": msg}))
		ok = false
	}
	if !ok {
		w.failed = true
	}
	return ok
}

// resyncFull is used by the boundary cases (all states tracked there or an
// allow-list: each boundary sample is independent).
func (w *world) resyncFull() { w.resync() }

// resync brings the mirror back with a full sync (and realigns the server's
// idea of what the client holds).
func (w *world) resync() {
	w.p.S.VerifMakeUpdate()
	w.p.C.Sync()
}

func (w *world) toggle(s string) {
	if w.src.Is1(s) {
		w.src.Remove1(s, nil)
	} else {
		w.src.Add1(s, nil)
	}
}

func newWorld(res *core.CaseResult, c cfg, prep func(src *am.Machine)) (*world, error) {
	names := append([]string(nil), gen.AllNames[:c.N]...)
	schema := am.Schema{}
	for _, n := range names {
		schema[n] = am.State{}
	}
	src := am.New(context.Background(), schema, &am.Opts{Id: "c10src", DontLogId: true, DontLogStackTrace: true})
	if err := src.VerifyStates(append(am.S(names), am.StateException)); err != nil {
		return nil, err
	}
	if prep != nil {
		prep(src)
	}
	p, err := rpcloop.NewPair(src, rpcloop.Opts{PushSet: true, PushInterval: 0, NoProxy: true, Client: arpc.ClientOpts{
		NoSchema: c.NoSchema, AllowedStates: am.S(c.Allow), SkippedStates: am.S(c.Skip), SyncShallowClocks: c.Shallow,
		SyncMutations: c.Muts,
	}})
	if err != nil {
		return nil, err
	}
	w := &world{res: res, cfg: c, src: src, p: p, names: names}
	w.tracked = []string(p.C.VerifTracked())
	// only user states are compared (Exception is synchronised like any other
	// state but never changes here)
	return w, nil
}

func (eng) Run(c core.CaseDesc, tier string) *core.CaseResult {
	res := &core.CaseResult{Case: c}
	var cf cfg
	_ = json.Unmarshal(c.P, &cf)
	r := gen.NewRand(c.Seed, 10)
	switch cf.Kind {
	case "deltas":
		runDeltas(res, cf, r)
	case "boundary":
		runBoundary(res, cf, r)
	case "history":
		runHistory(res, cf, r)
	}
	return res
}

func runDeltas(res *core.CaseResult, cf cfg, r *rand.Rand) {
	// the source has a history before the client connects: the handshake
	// snapshot carries full ticks (0..5 per state), whatever the later
	// snapshots are encoded as
	w, err := newWorld(res, cf, func(src *am.Machine) {
		for _, s := range src.StateNames() {
			if s == am.StateException {
				continue
			}
			for k := r.IntN(6); k > 0; k-- {
				if src.Is1(s) {
					src.Remove1(s, nil)
				} else {
					src.Add1(s, nil)
				}
			}
		}
	})
	if err != nil {
		res.Inconclusive = "pair: " + err.Error()
		return
	}
	defer w.p.Close()
	// initial agreement after the handshake
	if d := w.compare(); d != "" {
		res.Violate("C10/initial-mismatch/"+mode(cf), "right after the handshake the mirror differs from the source: "+d, w.ctx(nil))
		return
	}
	n := cf.N
	total := 1
	for i := 0; i < n; i++ {
		total *= 5
	}
	// every delta vector, twice (the second pass starts from other parities)
	for pass := 0; pass < 2; pass++ {
		for v := 0; v < total; v++ {
			d := make([]int, n)
			x := v
			sum := 0
			for i := 0; i < n; i++ {
				d[i] = x % 5
				x /= 5
				sum += d[i]
			}
			par := ""
			for _, s := range w.names {
				par += fmt.Sprint(w.src.Tick(s) % 2)
			}
			for i, s := range w.names {
				for k := 0; k < d[i]; k++ {
					w.toggle(s)
				}
			}
			if sum == 0 {
				// a queue-tick-only change: a no-op mutation
				w.src.Remove1(w.names[0], am.A{"noop": v})
				if w.src.Is1(w.names[0]) {
					w.src.Add1(w.names[0], am.A{"noop": v})
				}
			}
			if sum > 0 {
				w.roundTrip(fmt.Sprintf("deltas %v from parities %s", d, par), par, fmt.Sprint(d))
			} else {
				w.roundTrip(fmt.Sprintf("deltas %v from parities %s", d, par))
			}
			if w.failed {
				return
			}
			// drift: every 7th step, deep mode only
			if !cf.Shallow && !cf.Muts && v%7 == 3 && len(w.tracked) > 0 {
				w.drift(r, fmt.Sprintf("after deltas %v", d))
				if w.failed {
					return
				}
			}
		}
	}
	res.Count("configs", 1)
	if res.Sample == nil {
		res.Sample = map[string]any{"config": cf, "tracked": w.tracked, "delta_vectors": total * 2}
	}
}

// drift advances the mirror by k ticks through a self-consistent fake message
// and then requires the next real update to be rejected.
func (w *world) drift(r *rand.Rand, what string) {
	nm := w.p.C.NetMach
	ks := []uint32{1, 2, 3, 255, 257, 511}
	k := ks[r.IntN(len(ks))]
	st := w.tracked[r.IntN(len(w.tracked))]
	if st == am.StateException {
		st = w.tracked[0]
	}
	idx := slices.Index([]string(nm.StateNames()), st)
	if idx < 0 {
		return
	}
	var sum uint64
	for _, v := range nm.Time(nil) {
		sum += v
	}
	fake := &arpc.MsgSrvUpdate{Indexes: []uint16{uint16(idx)}, Ticks: []uint32{k},
		Checksum: arpc.Checksum(sum+uint64(k), nm.QueueTick(), nm.MachineTick())}
	if !w.p.C.VerifClockUpdate(fake) {
		// could not plant the drift: nothing to assert
		w.res.Count("drift_plant_failed", 1)
		return
	}
	// a real change on the source
	for _, s := range w.names {
		w.toggle(s)
	}
	upd, _ := w.p.S.VerifMakeUpdate()
	w.res.Evals++
	w.res.Count("drift_checks", 1)
	if upd != nil && w.p.C.VerifClockUpdate(upd) {
		w.failed = true
		w.res.Violate("C10/drift-accepted/"+mode(w.cfg), fmt.Sprintf(
			"the mirror was %d ticks ahead on %s (%d mod 256 = %d) and the next update was accepted instead of rejected (%s)",
			k, st, k, k%256, what), w.ctx(map[string]any{"k": k, "state": st, "update": upd}))
	}
	w.p.C.Sync()
	if d := w.compare(); d != "" {
		w.failed = true
		w.res.Violate("C10/sync-after-drift-wrong/"+mode(w.cfg), "after a full Sync the mirror still differs from the source: "+d,
			w.ctx(nil))
	}
}

func runBoundary(res *core.CaseResult, cf cfg, r *rand.Rand) {
	w, err := newWorld(res, cf, nil)
	if err != nil {
		res.Inconclusive = "pair: " + err.Error()
		return
	}
	defer w.p.Close()
	// queue-tick gaps around 2^16: no-op mutations advance only the queue tick
	for _, gap := range []int{65535, 65536, 65537, 65536 + 256, 2 * 65536} {
		for i := 0; i < gap-1; i++ {
			w.src.Remove1("A", am.A{"i": i})
			if i%2 == 0 {
				// keep it a pure queue-tick change most of the time
			}
		}
		w.toggle("B")
		if !w.roundTrip(fmt.Sprintf("queue-tick gap %d", gap), "qgap", gap) {
			w.resyncFull()
		}
	}
	// tick deltas around 2^16 and 2^32 on one state
	for _, jump := range []uint64{65535, 65536, 65536 + 2, 1<<32 - 1, 1 << 32, 1<<32 + 2} {
		cl := w.src.Clock(nil)
		base := cl["A"]
		target := base + jump
		// keep the parity of A consistent with its activity
		if target%2 != base%2 {
			target++
		}
		cl["A"] = target
		am.TestMockClock(w.src, cl)
		w.toggle("C") // a real transition publishes the new snapshot
		if !w.roundTrip(fmt.Sprintf("tick jump %d on A", jump), "tjump", jump) {
			w.resyncFull()
		}
	}
	// machine-tick diffs via Import
	for i := 0; i < 3; i++ {
		ser, _, err := w.src.Export()
		if err == nil {
			_ = w.src.Import(ser)
		}
		w.toggle("B")
		if !w.roundTrip(fmt.Sprintf("machine tick after Import #%d", i+1), "mtick", i) {
			w.resyncFull()
		}
	}
	res.Sample = map[string]any{"config": cf, "kind": "boundary"}
}

func runHistory(res *core.CaseResult, cf cfg, r *rand.Rand) {
	// the source has a history before the server attaches
	w, err := newWorld(res, cf, func(src *am.Machine) {
		for i := 0; i < 5; i++ {
			src.Add1("A", nil)
			src.Remove1("A", nil)
		}
		src.Add1("B", nil)
	})
	if err != nil {
		res.Inconclusive = "pair: " + err.Error()
		return
	}
	defer w.p.Close()
	if d := w.compare(); d != "" {
		res.Violate("C10/initial-mismatch/"+mode(cf)+"/history", "right after the handshake the mirror differs from a source with history: "+d, w.ctx(nil))
		w.resync()
	}
	for i := 0; i < 6; i++ {
		w.toggle(w.names[i%len(w.names)])
		w.roundTrip(fmt.Sprintf("step %d after attaching to a source with history", i), "hist", i)
	}
	res.Sample = map[string]any{"config": cf, "kind": "history"}
}

func trunc(s string, n int) string {
	if len(s) > n {
		return s[:n]
	}
	return s
}

var _ = strings.Contains

func main() { core.Main(eng{}) }
