// C11: same schema and same mutation history give the same machine, every run.
package main

import (
	"context"
	"crypto/sha1"
	"encoding/hex"
	"fmt"
	"strings"
	"time"

	am "github.com/pancsta/asyncmachine-go/pkg/machine"

	"verif/core"
	"verif/gen"
	"verif/rec"
)

type eng struct{}

func (eng) Property() string { return "C11" }
func (eng) Level() string    { return "exploration" }
func (eng) Rule() string {
	return "cases: PRNG schemas of 3..8 states rich in competing Auto states, mutual Remove, Add fans and independent Require " +
		"chains (topology ties), a static veto table, a history of 10-25 mutations; each case is executed on R=64 fresh machines in " +
		"one process (Go randomises every map iteration), half of them built from a schema literal with shuffled insertion order, and " +
		"the fingerprints (Result per step, Machine.Time per step, handler-call sequence) are compared. The per-case fingerprints " +
		"are also compared across the child processes by the parent (same case id -> same fingerprint is checked for cases that are " +
		"run twice in different children); in a third of the cases some End handlers panic the first two times they are called. Evaluation = one re-execution; distinct non-trivial = distinct case whose history " +
		"changed state and in which at least one auto mutation or handler ran."
}
func (eng) Assumptions() []string {
	return []string{"one issuing goroutine; random identifiers (machine, transition, binding ids) are not part of the fingerprint",
		"state order is the machine's default (sorted names) for every re-execution"}
}

func (eng) Cases(seed uint64, tier string) []core.CaseDesc {
	n := 150
	if tier == "thorough" {
		n = 60000
	}
	var cs []core.CaseDesc
	for i := 0; i < n; i++ {
		cs = append(cs, core.CaseDesc{ID: fmt.Sprintf("det/%05d", i), Kind: "det", Seed: seed*1000003 + uint64(i)})
		// the same case again under another id: lands in another child process
		if i%10 == 0 {
			cs = append(cs, core.CaseDesc{ID: fmt.Sprintf("detx/%05d", i), Kind: "det", Seed: seed*1000003 + uint64(i)})
		}
	}
	cs = append(cs, core.CaseDesc{ID: "directed/auto-order", Kind: "directed", Seed: 1})
	cs = append(cs, core.CaseDesc{ID: "directed/require-topology", Kind: "directed", Seed: 2})
	return cs
}

type fp struct {
	results string
	times   string
	calls   string
}

func (f fp) hash() string {
	h := sha1.Sum([]byte(f.results + "#" + f.times + "#" + f.calls))
	return hex.EncodeToString(h[:8])
}

func exec1(spec gen.SchemaSpec, schema am.Schema, veto map[string]bool, hist []gen.Op) (fp, int, int) {
	tr := rec.NewTracer("rec")
	tr.NoSample = true
	m := am.New(context.Background(), schema, &am.Opts{Id: "det", Tracers: []am.Tracer{tr},
		DontLogId: true, DontLogStackTrace: true,
		// generous: a handler timeout on a loaded machine would be a difference
		// between runs that the machine is not to blame for
		HandlerTimeout: 30 * time.Second})
	hl := &rec.HLog{}
	faults := map[string]int{}
	_, _ = rec.BindMaps(m, hl, 0, rec.AllHandlerNames(gen.Sorted(spec.Names)), func(c *rec.HCall, e *am.Event) bool {
		// "!name" entries are handlers that fault, the first two times they are
		// called (an Auto state is retried after every Exception: a handler that
		// faults for good would never let the machine settle)
		if veto["!"+c.Name] && faults[c.Name] < 2 {
			faults[c.Name]++
			panic("c11 fault")
		}
		return !veto[c.Name]
	})
	var f fp
	var rs, ts []string
	for _, op := range hist {
		// deterministic args: no uid (uids differ between runs by design)
		var r am.Result
		st := am.S(op.States)
		args := am.A{"k": "v"}
		switch op.Kind {
		case "add":
			r = m.Add(st, args)
		case "remove":
			r = m.Remove(st, args)
		case "set":
			r = m.Set(st, args)
		case "toggle":
			r = m.Toggle(st, args)
		}
		rs = append(rs, rec.ResStr(r))
		ts = append(ts, fmt.Sprint(m.Time(nil), m.ActiveStates(nil)))
	}
	var cs []string
	for _, c := range hl.Snapshot() {
		cs = append(cs, c.Name)
	}
	autos := 0
	for _, tx := range tr.Snapshot() {
		if tx.IsAuto {
			autos++
		}
	}
	f.results, f.times, f.calls = strings.Join(rs, ","), strings.Join(ts, ";"), strings.Join(cs, ",")
	m.Dispose()
	return f, autos, len(cs)
}

func judge(res *core.CaseResult, c core.CaseDesc, spec gen.SchemaSpec, veto map[string]bool, hist []gen.Op, R int) {
	r := gen.NewRand(c.Seed, 77)
	var first fp
	distinct := map[string]fp{}
	diffRes, diffTime, diffCalls := false, false, false
	var autos, calls int
	for i := 0; i < R; i++ {
		schema := spec.Schema()
		if i%2 == 1 {
			schema = spec.SchemaShuffled(r)
		}
		f, a, cl := exec1(spec, schema, veto, hist)
		autos, calls = a, cl
		res.Evals++
		if i == 0 {
			first = f
		}
		distinct[f.hash()] = f
		if f.results != first.results {
			diffRes = true
		}
		if f.times != first.times {
			diffTime = true
		}
		if f.calls != first.calls {
			diffCalls = true
		}
	}
	res.Count("reexecutions", int64(R))
	if first.times != "" && (autos > 0 || calls > 0) {
		res.Key(spec.String(), fmt.Sprint(hist))
	}
	res.Count("_fp:"+c.ID[strings.Index(c.ID, "/")+1:]+":"+first.hash(), 0)
	if len(distinct) > 1 {
		what := []string{}
		if diffRes {
			what = append(what, "results")
		}
		if diffTime {
			what = append(what, "time")
		}
		if diffCalls {
			what = append(what, "handler-calls")
		}
		// witness: two differing fingerprints
		var two []fp
		for _, f := range distinct {
			two = append(two, f)
			if len(two) == 2 {
				break
			}
		}
		// classify by the first diverging handler call / time
		cls := classify(spec, two[0], two[1])
		res.Violate("C11/diverged/"+cls, fmt.Sprintf(
			"%d re-executions of the same (schema, history, handlers) gave %d distinct outcomes (differing in %s)",
			R, len(distinct), strings.Join(what, "+")),
			map[string]any{"schema": spec.String(), "spec": spec, "history": fmt.Sprint(hist),
				"run_a": map[string]string{"results": two[0].results, "times": two[0].times, "calls": two[0].calls},
				"run_b": map[string]string{"results": two[1].results, "times": two[1].times, "calls": two[1].calls}})
	}
}

// classify names the kind of the first divergence between two runs.
func classify(spec gen.SchemaSpec, a, b fp) string {
	ca, cb := strings.Split(a.calls, ","), strings.Split(b.calls, ",")
	for i := 0; i < len(ca) && i < len(cb); i++ {
		if ca[i] != cb[i] {
			ka, kb := rec.HandlerKind(ca[i]), rec.HandlerKind(cb[i])
			if ka == kb {
				return "handler-order/" + ka
			}
			return "handler-sequence"
		}
	}
	if a.times != b.times {
		return "time"
	}
	if a.results != b.results {
		return "results"
	}
	return "handler-count"
}

func (eng) Run(c core.CaseDesc, tier string) *core.CaseResult {
	res := &core.CaseResult{Case: c}
	R := 64
	if c.Kind == "directed" {
		var spec gen.SchemaSpec
		var hist []gen.Op
		if c.Seed == 1 {
			// two Auto states that Remove each other: the winner depends on
			// the order in which the auto mutation lists them
			spec = gen.SchemaSpec{Names: []string{"A", "B", "X"}, States: map[string]gen.StateSpec{
				"A": {Auto: true, Remove: []string{"B"}}, "B": {Auto: true, Remove: []string{"A"}}, "X": {}}}
			hist = []gen.Op{{Kind: "add", States: []string{"X"}}}
		} else {
			// independent Require chains: ties in the topological order
			spec = gen.SchemaSpec{Names: []string{"A", "B", "C", "D", "E", "F"}, States: map[string]gen.StateSpec{
				"A": {Require: []string{"B"}}, "B": {}, "C": {Require: []string{"D"}}, "D": {},
				"E": {Require: []string{"F"}}, "F": {}}}
			hist = []gen.Op{{Kind: "add", States: []string{"A", "B", "C", "D", "E", "F"}}}
		}
		judge(res, c, spec, nil, hist, R)
		return res
	}
	r := gen.NewRand(c.Seed, 11)
	spec := gen.RandSchema(r, gen.SchemaOpts{MinStates: 3, MaxStates: 8,
		PRequire: r.Float64() * 0.25, PAdd: r.Float64() * 0.3, PRemove: r.Float64() * 0.35,
		PAfter: r.Float64() * 0.15, PAuto: 0.2 + r.Float64()*0.5, PMulti: r.Float64() * 0.3, AcyclicRequire: r.IntN(2) == 0})
	veto := map[string]bool{}
	for _, n := range rec.AllHandlerNames(gen.Sorted(spec.Names)) {
		if rec.IsNegotiation(n) && r.IntN(12) == 0 {
			veto[n] = true
		}
	}
	// a third of the cases: some End handlers panic the first two times they are called
	if r.IntN(3) == 0 {
		for _, n := range spec.Names {
			if r.IntN(4) == 0 {
				veto["!"+n+"End"] = true
			}
		}
	}
	hist := gen.RandHistory(r, spec.Names, []string{"add", "remove", "set", "toggle", "add"}, 10+r.IntN(16))
	judge(res, c, spec, veto, hist, R)
	if strings.HasSuffix(c.ID, "/00000") {
		res.Sample = map[string]any{"schema": spec.String(), "history": fmt.Sprint(hist), "reexecutions": R}
	}
	return res
}

// Finish compares fingerprints of the same case executed in different child
// processes.
func (eng) Finish(results []*core.CaseResult, cov map[string]any) []core.Violation {
	byCase := map[string]map[string]bool{}
	for _, r := range results {
		for k := range r.Counters {
			if strings.HasPrefix(k, "_fp:") {
				parts := strings.Split(k, ":")
				if byCase[parts[1]] == nil {
					byCase[parts[1]] = map[string]bool{}
				}
				byCase[parts[1]][parts[2]] = true
			}
		}
	}
	var vs []core.Violation
	cross := 0
	for id, fps := range byCase {
		if len(fps) > 1 {
			vs = append(vs, core.Violation{Sig: "C11/diverged/across-processes",
				What: "case " + id + " gave different first fingerprints in two processes"})
		}
		cross++
	}
	cov["cases_fingerprinted"] = cross
	return vs
}

func main() { core.Main(eng{}) }
