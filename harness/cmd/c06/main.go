// C06: waiting - no lost or spurious wake-ups; state contexts bound to one
// state instance.
package main

import (
	"context"
	"fmt"
	"math/rand/v2"
	"runtime"
	"strings"
	"sync"
	"sync/atomic"
	"time"

	am "github.com/pancsta/asyncmachine-go/pkg/machine"

	"verif/core"
	"verif/gen"
	"verif/rec"
	"verif/seq"
)

type eng struct{}

func (eng) Property() string { return "C06" }
func (eng) Level() string    { return "exploration" }
func (eng) Rule() string {
	return "cases: (seq) PRNG schema of 2..5 states (Multi, Auto, relations), a script of 25-60 steps mixing subscriptions of every " +
		"kind (When, WhenNot, WhenTime, WhenTicks, WhenNextActive, WhenQuery, WhenArgs, WhenQueue, NewStateCtx; with and without a " +
		"cancelable ctx), mutations, ctx cancelations, schema growth via SetSchema and a final dispose; after every step every " +
		"subscription is swept against the tick chain recorded by a tracer (mustClose / mustOpen / either). (race) a subscriber " +
		"goroutine is placed by gates before apply (negotiation handler parked), between tx.applied and pq.before-subs, and after the " +
		"transition, for every subscription kind; WhenQueueEnds at wqe.checked. Evaluation = one (subscription, step) sweep; distinct " +
		"non-trivial = distinct (case, subscription) whose verdict was decided by a transition (closed by a later transition, or " +
		"had to stay open across a state change)."
}
func (eng) Assumptions() []string {
	return []string{
		"subscriptions in the sequential part are made at quiescence, so the subscription point in the tick chain is exact",
		"ctx expiry closes lazily: mustClose by ctx only after an accepted non-check transition ended after the ctx did; nothing is asserted to stay open once its ctx ended",
		"conditions are evaluated by independent code over the tick vectors recorded by the tracer",
	}
}

func (eng) Cases(seed uint64, tier string) []core.CaseDesc {
	ns, nr := 600, 200
	if tier == "thorough" {
		ns, nr = 30000, 6000
	}
	var cs []core.CaseDesc
	for i := 0; i < ns; i++ {
		cs = append(cs, core.CaseDesc{ID: fmt.Sprintf("seq/%05d", i), Kind: "seq", Seed: seed*1000003 + uint64(i)})
	}
	for i := 0; i < nr; i++ {
		cs = append(cs, core.CaseDesc{ID: fmt.Sprintf("race/%05d", i), Kind: "race", Seed: seed*2000003 + uint64(i)})
	}
	nt := 4
	if tier == "thorough" {
		nt = 60
	}
	for i := 0; i < nt; i++ {
		cs = append(cs, core.CaseDesc{ID: fmt.Sprintf("torn/%03d", i), Kind: "torn", Seed: seed*8000009 + uint64(i)})
	}
	for i := 0; i < 15; i++ {
		cs = append(cs, core.CaseDesc{ID: fmt.Sprintf("directed/%02d", i), Kind: "directed", Seed: uint64(i)})
	}
	return cs
}

func (eng) CaseTimeout(string) time.Duration { return 40 * time.Second }

// sub is one subscription under observation.
type sub struct {
	Kind   string   `json:"kind"`
	States []string `json:"states,omitempty"`
	Times  []uint64 `json:"times,omitempty"` // absolute targets (whentime/whenticks/nextactive)
	Args   am.A     `json:"args,omitempty"`
	QKind  int      `json:"qkind,omitempty"`
	QK     uint64   `json:"qk,omitempty"`
	HasCtx bool     `json:"has_ctx,omitempty"`
	At     int      `json:"at"` // chain index at subscription
	Step   int      `json:"step"`

	ch        <-chan struct{}
	ctx       context.Context // for statectx: the state context itself
	cancel    context.CancelFunc
	ctxDoneAt int // chain index when the ctx was canceled (-1 = live)
	tick0     uint64
	// qtick for whenqueue
	qtick uint64
	done  bool // verdict final (closed legitimately): stop sweeping
	keyed bool
}

func (s *sub) String() string {
	return fmt.Sprintf("%s%v times=%v args=%v ctx=%v at=%d", s.Kind, s.States, s.Times, s.Args, s.HasCtx, s.At)
}

func isClosed(ch <-chan struct{}) bool {
	select {
	case <-ch:
		return true
	default:
		return false
	}
}

// world holds the machine, the chain and the subscriptions.
type world struct {
	mc    *seq.Mach
	names am.S // grows with SetSchema
	subs  []*sub
	// chain[i] = time vector after transition i (chain[0] = initial); acc[i]
	// tells whether transition i was accepted and non-check; enters[i] = the
	// states whose State event fired with the args of the mutation
	chain    []am.Time
	acc      []bool
	argsOf   []am.A
	entered  [][]string
	seenTx   int
	disposed bool
	log      []string
}

func (w *world) idx(s string) int {
	for i, n := range w.names {
		if n == s {
			return i
		}
	}
	return -1
}

// sameTicks compares two vectors of possibly different length (schema growth
// appends states at tick 0).
func sameTicks(a, b am.Time) bool {
	n := max(len(a), len(b))
	for i := 0; i < n; i++ {
		if tickOf(a, i) != tickOf(b, i) {
			return false
		}
	}
	return true
}

func tickOf(t am.Time, i int) uint64 {
	if i < 0 || i >= len(t) {
		return 0
	}
	return t[i]
}

// absorb appends the transitions recorded since the last call to the chain.
func (w *world) absorb() {
	txs := w.mc.Tr.Snapshot()
	n := w.seenTx
	for _, tx := range txs[w.seenTx:] {
		if !strings.HasSuffix(tx.Callbacks, "E") {
			// still in flight: absorb it later
			break
		}
		n++
		w.chain = append(w.chain, tx.After)
		w.acc = append(w.acc, tx.Accepted && !tx.IsCheck)
		// activated states (State event): flipped to active or Multi re-entry
		var ent []string
		if tx.Accepted && !tx.IsCheck {
			for i := range tx.After {
				if i < len(tx.Before) && tx.After[i] != tx.Before[i] && tx.After[i]%2 == 1 {
					ent = append(ent, w.mc.M.StateNames()[i])
				}
			}
		}
		w.entered = append(w.entered, ent)
		w.argsOf = append(w.argsOf, tx.Args)
	}
	w.seenTx = n
}

func (w *world) cur() int { return len(w.chain) - 1 }

// cond evaluates the subscription's own condition on chain element i.
func (w *world) cond(s *sub, i int) bool {
	t := w.chain[i]
	switch s.Kind {
	case "when":
		for _, st := range s.States {
			if tickOf(t, w.idx(st))%2 == 0 {
				return false
			}
		}
		return true
	case "whennot":
		for _, st := range s.States {
			if tickOf(t, w.idx(st))%2 == 1 {
				return false
			}
		}
		return true
	case "whentime", "whenticks", "nextactive":
		for k, st := range s.States {
			if tickOf(t, w.idx(st)) < s.Times[k] {
				return false
			}
		}
		return true
	case "whenquery":
		return query(s.QKind, s.QK, s.States, func(st string) uint64 { return tickOf(t, w.idx(st)) })
	case "whenargs":
		// an accepted transition entered the state with ⊇ args
		if i == 0 || !w.acc[i] {
			return false
		}
		if !rec.Has(w.entered[i], s.States[0]) {
			return false
		}
		for k, v := range s.Args {
			if w.argsOf[i][k] != v {
				return false
			}
		}
		return true
	}
	return false
}

// query is the family of WhenQuery predicates (pure functions of ticks).
func query(kind int, k uint64, states []string, tick func(string) uint64) bool {
	switch kind {
	case 0: // sum of ticks >= k
		var sum uint64
		for _, s := range states {
			sum += tick(s)
		}
		return sum >= k
	case 1: // first active and last inactive
		return tick(states[0])%2 == 1 && tick(states[len(states)-1])%2 == 0
	default: // any tick >= k
		for _, s := range states {
			if tick(s) >= k {
				return true
			}
		}
		return false
	}
}

// verdict: 1 mustClose, -1 mustOpen, 0 either
func (w *world) verdict(s *sub) (int, string) {
	if w.disposed {
		return 1, "machine disposed"
	}
	switch s.Kind {
	case "statectx":
		// canceled exactly when the tick changed since creation
		for i := s.At + 1; i < len(w.chain); i++ {
			if tickOf(w.chain[i], w.idx(s.States[0])) != s.tick0 {
				return 1, fmt.Sprintf("tick changed %d -> %d at chain[%d]", s.tick0, tickOf(w.chain[i], w.idx(s.States[0])), i)
			}
		}
		return -1, "tick unchanged since creation"
	case "whenqueue":
		return 0, ""
	}
	from := s.At
	if s.Kind == "whenquery" || s.Kind == "whenargs" {
		from = s.At + 1 // only from the next transition on
	}
	for i := from; i < len(w.chain); i++ {
		if i > s.At && !w.acc[i] && s.Kind != "whenargs" {
			// canceled transitions do not change the vector; skip
			continue
		}
		if w.cond(s, i) {
			return 1, fmt.Sprintf("condition held at chain[%d]=%v", i, w.chain[i])
		}
	}
	if s.HasCtx && s.ctxDoneAt >= 0 {
		for i := s.ctxDoneAt + 1; i < len(w.chain); i++ {
			if !w.acc[i] {
				continue
			}
			// WhenArgs bindings are only visited when a handler event fires,
			// i.e. when the transition changed some state
			if s.Kind == "whenargs" && sameTicks(w.chain[i], w.chain[i-1]) {
				continue
			}
			return 1, "ctx ended and an accepted transition ran since"
		}
		return 0, ""
	}
	return -1, "condition never held since subscription"
}

func (w *world) sweep(res *core.CaseResult, step int, what string, ctxf func() any) {
	w.absorb()
	for _, s := range w.subs {
		if s.done {
			continue
		}
		res.Evals++
		var closed bool
		if s.Kind == "statectx" {
			closed = s.ctx.Err() != nil
		} else {
			closed = isClosed(s.ch)
		}
		v, why := w.verdict(s)
		switch {
		case v == 1 && !closed:
			kind := "lost"
			if s.Kind == "statectx" {
				kind = "alive-after-tick-change"
			}
			res.Violate("C06/"+kind+"/"+s.Kind+w.class(s, true), fmt.Sprintf(
				"%s is still open after step %d (%s) although it must be closed: %s", s, step, what, why), ctxf())
			s.done = true
		case v == -1 && closed:
			kind := "spurious"
			if s.Kind == "statectx" {
				kind = "canceled-without-tick-change"
			}
			res.Violate("C06/"+kind+"/"+s.Kind+w.class(s, false), fmt.Sprintf(
				"%s is closed after step %d (%s) although it must be open: %s", s, step, what, why), ctxf())
			s.done = true
		case v == 1 && closed:
			s.done = true
			if s.At < w.cur() && !s.keyed {
				s.keyed = true
				res.Key(ctxf2(ctxf), s.String())
			}
		case v == -1 && !closed:
			if s.At < w.cur() && !s.keyed {
				s.keyed = true
				res.Key(ctxf2(ctxf), s.String(), "open")
			}
		}
	}
}

func ctxf2(f func() any) string { return fmt.Sprint(f().(map[string]any)["seed"]) }

// class adds a structural feature to the signature where a known defect has
// one (kept narrow).
func (w *world) class(s *sub, lost bool) string {
	return ""
}

// ---- sequential engine

type step struct {
	Kind string // mut sub cancel schema dispose
	Op   gen.Op
	Sub  *sub
	Idx  int
}

func (w *world) subscribe(r *rand.Rand, step int, kinds []string) *sub {
	m := w.mc.M
	names := w.names
	user := []string{}
	for _, n := range names {
		if n != am.StateException {
			user = append(user, n)
		}
	}
	s := &sub{Kind: kinds[r.IntN(len(kinds))], At: w.cur(), Step: step, ctxDoneAt: -1}
	var ctx context.Context
	if r.IntN(3) == 0 && s.Kind != "statectx" && s.Kind != "whenqueue" {
		s.HasCtx = true
		ctx, s.cancel = context.WithCancel(context.Background())
	}
	cur := w.chain[w.cur()]
	switch s.Kind {
	case "when":
		s.States = gen.RandSubset(r, user, false)
		s.ch = m.When(am.S(s.States), ctx)
	case "whennot":
		s.States = gen.RandSubset(r, user, false)
		s.ch = m.WhenNot(am.S(s.States), ctx)
	case "whentime":
		s.States = gen.RandSubset(r, user, false)
		for _, st := range s.States {
			s.Times = append(s.Times, tickOf(cur, w.idx(st))+uint64(r.IntN(4)))
		}
		s.ch = m.WhenTime(am.S(s.States), am.Time(s.Times), ctx)
	case "whenticks":
		st := user[r.IntN(len(user))]
		n := 1 + r.IntN(3)
		s.States = []string{st}
		s.Times = []uint64{tickOf(cur, w.idx(st)) + uint64(n)}
		s.ch = m.WhenTicks(st, n, ctx)
	case "nextactive":
		st := user[r.IntN(len(user))]
		s.States = []string{st}
		t0 := tickOf(cur, w.idx(st))
		s.Times = []uint64{t0 + uint64(am.NextActiveIn(t0))}
		s.ch = m.WhenNextActive(st, ctx)
	case "whenquery":
		s.States = gen.RandSubset(r, user, false)
		s.QKind = r.IntN(3)
		var sum uint64
		for _, st := range s.States {
			sum += tickOf(cur, w.idx(st))
		}
		s.QK = sum + uint64(r.IntN(4))
		if s.QKind == 2 {
			s.QK = tickOf(cur, w.idx(s.States[0])) + uint64(1+r.IntN(3))
		}
		qk, kind, sts := s.QK, s.QKind, append([]string(nil), s.States...)
		s.ch = m.WhenQuery(func(c am.Clock) bool {
			return query(kind, qk, sts, func(st string) uint64 { return c[st] })
		}, ctx)
	case "whenargs":
		st := user[r.IntN(len(user))]
		s.States = []string{st}
		// one or two keys: subscriptions whose args are a subset / superset of
		// another's are common
		switch r.IntN(3) {
		case 0:
			s.Args = am.A{"tag": fmt.Sprintf("t%d", r.IntN(3))}
		case 1:
			s.Args = am.A{"grp": fmt.Sprintf("g%d", r.IntN(2))}
		default:
			s.Args = am.A{"tag": fmt.Sprintf("t%d", r.IntN(3)), "grp": fmt.Sprintf("g%d", r.IntN(2))}
		}
		s.ch = m.WhenArgs(st, s.Args, ctx)
	case "statectx":
		st := user[r.IntN(len(user))]
		s.States = []string{st}
		s.tick0 = tickOf(cur, w.idx(st))
		s.ctx = m.NewStateCtx(st)
	}
	w.subs = append(w.subs, s)
	return s
}

var allKinds = []string{"when", "whennot", "whentime", "whenticks", "nextactive", "whenquery", "whenargs", "statectx",
	"when", "whennot", "whentime"}

// runTorn: WhenNextActive / WhenTicks are called while exactly one transition
// (a deactivation of the active state) runs concurrently; then the state is
// activated once more. Whichever tick the call saw (before or after the
// deactivation), the next activation is the one it waits for: the channel has
// to be closed now. A call that mixes two readings of the tick waits for a
// later one.
func runTorn(res *core.CaseResult, c core.CaseDesc) {
	r := gen.NewRand(c.Seed, 61)
	m := am.New(context.Background(), am.Schema{"A": {}}, &am.Opts{Id: "c06t", DontLogId: true, DontLogStackTrace: true})
	defer m.Dispose()
	for trial := 0; trial < 3000; trial++ {
		if !m.Is1("A") {
			m.Add1("A", nil)
		}
		t0 := m.Tick("A")
		var start atomic.Bool
		spin := r.IntN(400)
		var wg sync.WaitGroup
		wg.Add(1)
		go func() {
			defer wg.Done()
			for !start.Load() {
			}
			for i := 0; i < spin; i++ {
				_ = start.Load()
			}
			m.Remove1("A", nil)
		}()
		runtime.Gosched()
		start.Store(true)
		for i := 0; i < r.IntN(200); i++ {
			_ = start.Load()
		}
		ch := m.WhenNextActive("A", nil)
		wg.Wait()
		m.Add1("A", nil)
		res.Evals++
		if !isClosed(ch) {
			res.Violate("C06/lost/nextactive/torn-tick", fmt.Sprintf(
				"trial %d: WhenNextActive(A) was called at tick %d or %d (one deactivation ran concurrently); A was then activated again (tick %d) and the channel is still open",
				trial, t0, t0+1, m.Tick("A")), nil)
			return
		}
	}
	res.Key("torn", c.Seed)
	res.Count("nextactive_calls_racing_one_transition", 3000)
}

func runSeq(res *core.CaseResult, c core.CaseDesc, kinds []string, noCtx bool) {
	r := gen.NewRand(c.Seed, 6)
	spec := gen.RandSchema(r, gen.SchemaOpts{MinStates: 2, MaxStates: 5,
		PRequire: r.Float64() * 0.15, PAdd: r.Float64() * 0.25, PRemove: r.Float64() * 0.25,
		PAuto: r.Float64() * 0.2, PMulti: r.Float64() * 0.4})
	mc, _ := seq.New(spec, seq.MachOpts{})
	m := mc.M
	withHandlers := r.IntN(2) == 0
	if withHandlers {
		_, _ = rec.BindMaps(m, mc.HLog, 0, rec.AllHandlerNames(gen.Sorted(spec.Names)), nil)
	}
	w := &world{mc: mc, names: m.StateNames()}
	w.chain = []am.Time{m.Time(nil)}
	w.acc = []bool{false}
	w.entered = [][]string{nil}
	w.argsOf = []am.A{nil}
	n := 25 + r.IntN(36)
	var script []string
	ctxf := func() any {
		return map[string]any{"schema": spec.String(), "handlers": withHandlers, "seed": c.Seed,
			"script": strings.Join(script, "; ")}
	}
	grown := 0
	for i := 0; i < n; i++ {
		var what string
		x := r.IntN(20)
		switch {
		case x < 9: // mutation
			op := gen.RandOp(r, spec.Names, []string{"add", "remove", "set", "toggle", "add", "remove", "canadd"})
			// mutations carry a tag for WhenArgs
			st := am.S(op.States)
			args := am.A{"uid": rec.NextUid(), "tag": fmt.Sprintf("t%d", r.IntN(3)), "grp": fmt.Sprintf("g%d", r.IntN(2))}
			switch op.Kind {
			case "add":
				m.Add(st, args)
			case "remove":
				m.Remove(st, args)
			case "set":
				m.Set(st, args)
			case "toggle":
				m.Toggle(st, args)
			case "canadd":
				m.CanAdd(st, args)
			}
			what = op.String() + fmt.Sprint(args["tag"], args["grp"])
		case x < 16: // subscribe
			w.absorb()
			s := w.subscribe(r, i, kinds)
			if noCtx && s.HasCtx {
				s.cancel()
			}
			what = "sub " + s.String()
		case x < 18: // cancel a ctx
			var live []*sub
			for _, s := range w.subs {
				if s.HasCtx && s.ctxDoneAt < 0 {
					live = append(live, s)
				}
			}
			if len(live) == 0 {
				continue
			}
			w.absorb()
			s := live[r.IntN(len(live))]
			s.cancel()
			s.ctxDoneAt = w.cur()
			what = "cancel ctx of " + s.String()
		case x < 19 && grown < 2: // schema growth
			w.absorb()
			grown++
			ns := m.Schema()
			nn := fmt.Sprintf("Z%d", grown)
			ns[nn] = am.State{}
			names := append(append(am.S{}, m.StateNames()...), nn)
			if err := m.SetSchema(ns, names); err != nil {
				what = "setschema failed: " + err.Error()
			} else {
				w.names = m.StateNames()
				spec.Names = append(spec.Names, nn)
				what = "setschema +" + nn
			}
		default:
			continue
		}
		script = append(script, what)
		w.sweep(res, i, what, ctxf)
	}
	// dispose
	m.Dispose()
	select {
	case <-m.WhenDisposed():
		w.disposed = true
		script = append(script, "dispose")
		w.sweep(res, n, "dispose", ctxf)
	case <-time.After(15 * time.Second):
		res.Inconclusive = "dispose did not complete"
	}
	res.Count("subscriptions", int64(len(w.subs)))
	res.Count("transitions", int64(len(w.chain)-1))
	if strings.HasSuffix(c.ID, "/00000") {
		res.Sample = ctxf()
	}
}

// ---- race engine: subscription placed by gates

func runRace(res *core.CaseResult, c core.CaseDesc) {
	r := gen.NewRand(c.Seed, 66)
	spec := gen.SchemaSpec{Names: []string{"A", "B", "C"}, States: map[string]gen.StateSpec{
		"A": {Multi: r.IntN(2) == 0}, "B": {}, "C": {Multi: true}}}
	mc, _ := seq.New(spec, seq.MachOpts{})
	m := mc.M
	placement := []string{"before-apply", "applied", "before-subs", "after"}[r.IntN(4)]
	kind := []string{"when", "whennot", "whentime", "whenticks", "nextactive", "statectx", "whenquery"}[r.IntN(7)]
	// pre-state
	pre := gen.RandHistory(r, spec.Names, []string{"add", "remove"}, r.IntN(4))
	for _, op := range pre {
		rec.Apply(m, op)
	}
	w := &world{mc: mc, names: m.StateNames()}
	w.chain = []am.Time{}
	// rebuild chain from the tracer: chain[0] = initial zero vector
	w.chain = append(w.chain, make(am.Time, len(w.names)))
	w.acc = []bool{false}
	w.entered = [][]string{nil}
	w.argsOf = []am.A{nil}
	w.absorb()

	gate := make(chan struct{})
	reached := make(chan struct{}, 4)
	park := func() {
		select {
		case reached <- struct{}{}:
		default:
		}
		select {
		case <-gate:
		case <-time.After(15 * time.Second):
		}
	}
	am.VerifHookClear()
	defer am.VerifHookClear()
	var once sync.Once
	switch placement {
	case "before-apply":
		_, _ = m.HandlersBindMaps(map[string]am.HandlerNegotiation{
			"AnyEnter": func(e *am.Event) bool {
				if e.IsCheck {
					return true
				}
				once.Do(park)
				return true
			},
		}, nil)
	case "applied":
		am.VerifHookSet("tx.applied", func() { once.Do(park) })
	case "before-subs":
		am.VerifHookSet("pq.before-subs", func() { once.Do(park) })
	}
	// the racing mutation
	mut := gen.RandOp(r, spec.Names, []string{"add", "remove", "add", "set"})
	done := make(chan struct{})
	go func() {
		defer close(done)
		rec.Apply(m, mut)
	}()
	parked := false
	if placement != "after" {
		select {
		case <-reached:
			parked = true
		case <-done:
			// the mutation ended without reaching the point (canceled / no-op)
		case <-time.After(10 * time.Second):
			res.Inconclusive = "gate not reached"
			close(gate)
			return
		}
	} else {
		<-done
	}
	// subscription point in the chain: what the machine shows now
	now := m.Time(nil)
	w.absorb()
	// when parked at/after apply, the transition is not yet in the tracer's
	// list of ended transitions: the visible vector is a chain element to come
	visible := now
	s := &sub{Kind: kind, Step: 0, ctxDoneAt: -1}
	user := spec.Names
	switch kind {
	case "when":
		s.States = gen.RandSubset(r, user, false)
		s.ch = m.When(am.S(s.States), nil)
	case "whennot":
		s.States = gen.RandSubset(r, user, false)
		s.ch = m.WhenNot(am.S(s.States), nil)
	case "whentime":
		s.States = gen.RandSubset(r, user, false)
		for _, st := range s.States {
			s.Times = append(s.Times, tickOf(visible, w.idx(st))+uint64(r.IntN(3)))
		}
		s.ch = m.WhenTime(am.S(s.States), am.Time(s.Times), nil)
	case "whenticks":
		// relative to the tick the harness reads now, under the gate
		st := user[r.IntN(len(user))]
		n := 1 + r.IntN(2)
		s.States = []string{st}
		s.Times = []uint64{tickOf(visible, w.idx(st)) + uint64(n)}
		s.ch = m.WhenTicks(st, n, nil)
	case "nextactive":
		st := user[r.IntN(len(user))]
		s.States = []string{st}
		t0 := tickOf(visible, w.idx(st))
		s.Times = []uint64{t0 + uint64(am.NextActiveIn(t0))}
		s.ch = m.WhenNextActive(st, nil)
	case "statectx":
		st := user[r.IntN(len(user))]
		s.States = []string{st}
		s.tick0 = tickOf(visible, w.idx(st))
		s.ctx = m.NewStateCtx(st)
	case "whenquery":
		s.States = gen.RandSubset(r, user, false)
		s.QKind = 0
		var sum uint64
		for _, st := range s.States {
			sum += tickOf(visible, w.idx(st))
		}
		s.QK = sum + uint64(1+r.IntN(2))
		qk, sts := s.QK, append([]string(nil), s.States...)
		s.ch = m.WhenQuery(func(c am.Clock) bool {
			return query(0, qk, sts, func(st string) uint64 { return c[st] })
		}, nil)
	}
	if parked {
		close(gate)
		<-done
	}
	<-m.WhenQueueEnds()
	w.absorb()
	// locate the subscription point: the last chain element equal to the
	// visible vector at subscription (searching from the end of the pre-run)
	s.At = -1
	for i := len(w.chain) - 1; i >= 0; i-- {
		if rec.TimeEq(w.chain[i], visible) {
			s.At = i
			break
		}
	}
	if s.At < 0 {
		res.Inconclusive = "subscription point not found in the chain"
		return
	}
	w.subs = append(w.subs, s)
	ctxf := func() any {
		return map[string]any{"schema": spec.String(), "placement": placement, "parked": parked, "pre": fmt.Sprint(pre),
			"mutation": mut.String(), "sub": s.String(), "chain": w.chain, "seed": c.Seed}
	}
	// a few follow-up mutations keep judging the same subscription
	w.sweepRace(res, placement, ctxf)
	for i := 0; i < 3; i++ {
		op := gen.RandOp(r, spec.Names, []string{"add", "remove"})
		rec.Apply(m, op)
		w.sweepRace(res, placement, ctxf)
	}
	if parked {
		res.Key("race", placement, kind, mut.Kind)
		res.Count("placed_"+placement, 1)
	}
	if strings.HasSuffix(c.ID, "/00000") {
		res.Sample = ctxf()
	}
	if placement == "before-apply" {
		m.Dispose()
	}
}

func (w *world) sweepRace(res *core.CaseResult, placement string, ctxf func() any) {
	w.absorb()
	for _, s := range w.subs {
		if s.done {
			continue
		}
		res.Evals++
		var closed bool
		if s.Kind == "statectx" {
			closed = s.ctx.Err() != nil
		} else {
			closed = isClosed(s.ch)
		}
		v, why := w.verdict(s)
		if v == 1 && !closed {
			res.Violate("C06/lost/"+s.Kind+"/subscribed-"+placement, fmt.Sprintf(
				"%s (subscribed %s) is still open although it must be closed: %s", s, placement, why), ctxf())
			s.done = true
		} else if v == -1 && closed {
			k := "spurious"
			if s.Kind == "statectx" {
				k = "canceled-without-tick-change"
			}
			res.Violate("C06/"+k+"/"+s.Kind+"/subscribed-"+placement, fmt.Sprintf(
				"%s (subscribed %s) is closed although it must be open: %s", s, placement, why), ctxf())
			s.done = true
		}
	}
}

// ---- WhenQueueEnds at the check-then-lock window

func runQueueEnds(res *core.CaseResult, c core.CaseDesc) {
	spec := gen.SchemaSpec{Names: []string{"A", "B"}, States: map[string]gen.StateSpec{"A": {}, "B": {}}}
	mc, _ := seq.New(spec, seq.MachOpts{})
	m := mc.M
	am.VerifHookClear()
	defer am.VerifHookClear()
	// a handler keeps the queue running while the subscriber passes the check
	inHandler := make(chan struct{})
	release := make(chan struct{})
	_, _ = m.HandlersBindMaps(nil, map[string]am.HandlerFinal{
		"AState": func(e *am.Event) {
			close(inHandler)
			<-release
		},
	})
	gate := make(chan struct{})
	reached := make(chan struct{}, 1)
	am.VerifHookSet("wqe.checked", func() {
		select {
		case reached <- struct{}{}:
		default:
		}
		<-gate
	})
	go m.Add1("A", nil)
	<-inHandler
	var ch <-chan struct{}
	subDone := make(chan struct{})
	go func() {
		ch = m.WhenQueueEnds()
		close(subDone)
	}()
	select {
	case <-reached:
	case <-time.After(5 * time.Second):
		res.Inconclusive = "wqe.checked not reached"
		close(release)
		return
	}
	// the queue ends while the subscriber sits between the check and the lock
	close(release)
	for i := 0; i < 2000 && (m.Transition() != nil || m.QueueLen() > 0); i++ {
		time.Sleep(time.Millisecond)
	}
	ends := mc.Tr.QueueEnds.Load()
	close(gate)
	<-subDone
	res.Evals++
	res.Key("wqe", c.Seed)
	res.Key("wqe2", c.Seed, ends)
	// the queue ended after the subscriber's running-check; the binding was
	// inserted afterwards: it waits for the *next* queue end. At quiescence
	// the machine is idle: condition (queue not running) holds.
	if !isClosed(ch) {
		res.Violate("C06/lost/whenqueueends/check-then-lock", fmt.Sprintf(
			"WhenQueueEnds passed its running-check while the queue ran, the queue ended (%d QueueEnd callbacks) before the binding "+
				"was inserted, and the channel is open on an idle machine", ends), map[string]any{"seed": c.Seed})
	}
	m.Dispose()
}

func (eng) Run(c core.CaseDesc, tier string) *core.CaseResult {
	res := &core.CaseResult{Case: c}
	switch c.Kind {
	case "seq":
		runSeq(res, c, allKinds, false)
	case "race":
		if c.Seed%10 == 0 {
			runQueueEnds(res, c)
		} else {
			runRace(res, c)
		}
	case "torn":
		runTorn(res, c)
	case "directed":
		runDirected(res, c)
	}
	return res
}

func main() { core.Main(eng{}) }
