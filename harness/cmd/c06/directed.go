package main

import (
	"context"
	"fmt"
	"sync"
	"time"

	am "github.com/pancsta/asyncmachine-go/pkg/machine"

	"verif/core"
)

func mk(schema am.Schema) *am.Machine {
	return am.New(context.Background(), schema, &am.Opts{Id: "c06d", DontLogId: true, DontLogStackTrace: true})
}

// runDirected replays the witnesses of the defects this check found (all
// repaired by fix: commits; a regression is reported with the same signature).
func runDirected(res *core.CaseResult, c core.CaseDesc) {
	res.Evals++
	res.Key("directed", c.Seed)
	switch c.Seed {
	case 0: // WhenQuery with a ctx: no panic, expiry collected by the next accepted transition
		m := mk(am.Schema{"A": {}, "B": {}})
		ctx, cancel := context.WithCancel(context.Background())
		ch := m.WhenQuery(func(cl am.Clock) bool { return cl["A"] >= 100 }, ctx)
		cancel()
		m.Add1("B", nil)
		if !isClosed(ch) {
			res.Violate("C06/lost/whenquery/ctx-expiry", "WhenQuery(ctx) still open after its ctx ended and an accepted transition ran", nil)
		}
	case 1: // WhenQuery closed by dispose
		m := mk(am.Schema{"A": {}})
		ch := m.WhenQuery(func(cl am.Clock) bool { return false }, nil)
		m.Dispose()
		select {
		case <-m.WhenDisposed():
		case <-time.After(10 * time.Second):
			res.Inconclusive = "dispose did not complete"
			return
		}
		if !isClosed(ch) {
			res.Violate("C06/lost/whenquery/dispose", "WhenQuery channel open after Dispose", nil)
		}
	case 2: // sibling ctx expiry must not drop another binding's index entry
		m := mk(am.Schema{"A": {}, "B": {}})
		ctx, cancel := context.WithCancel(context.Background())
		_ = m.When(am.S{"A", "B"}, ctx)
		other := m.When(am.S{"A"}, nil)
		cancel()
		m.Add1("B", nil) // collects the expired binding
		m.Add1("A", nil)
		if !isClosed(other) {
			res.Violate("C06/lost/when/sibling-ctx-expiry", "When[A] stayed open after A became active: "+
				"the expiry of a When[A B](ctx) binding removed its index entry", nil)
		}
	case 3: // SetSchema: time subscriptions keep working, also on the new state's first tick
		m := mk(am.Schema{"A": {}})
		m.Add1("A", nil)
		ns := m.Schema()
		ns["Z"] = am.State{}
		if err := m.SetSchema(ns, append(append(am.S{}, m.StateNames()...), "Z")); err != nil {
			res.Inconclusive = "SetSchema: " + err.Error()
			return
		}
		chA := m.WhenTime1("A", 3, nil)
		chZ := m.WhenTicks("Z", 1, nil)
		m.Remove1("A", nil)
		m.Add1("A", nil)
		m.Add1("Z", nil)
		if !isClosed(chA) {
			res.Violate("C06/lost/whentime/after-SetSchema", fmt.Sprintf("WhenTime1(A,3) open although Tick(A)=%d", m.Tick("A")), nil)
		}
		if !isClosed(chZ) {
			res.Violate("C06/lost/whenticks/new-state-first-tick", fmt.Sprintf("WhenTicks(Z,1) open although Tick(Z)=%d", m.Tick("Z")), nil)
		}
	case 4: // When must not close on a combination that never existed
		m := mk(am.Schema{"A": {Remove: am.S{"B"}}, "B": {}})
		m.Add1("B", nil)
		ch := m.When(am.S{"A", "B"}, nil)
		m.Add1("A", nil) // activates A and deactivates B in one transition
		if isClosed(ch) {
			res.Violate("C06/spurious/when/activate+deactivate-in-one-transition",
				"When[A B] closed although A and B were never active together", nil)
		}
	case 5: // WhenArgs: different contexts, different channels
		m := mk(am.Schema{"A": {Multi: true}})
		ctx, cancel := context.WithCancel(context.Background())
		_ = m.WhenArgs("A", am.A{"k": 1}, ctx)
		plain := m.WhenArgs("A", am.A{"k": 1}, nil)
		cancel()
		m.Add1("A", am.A{"k": 2})
		if isClosed(plain) {
			res.Violate("C06/spurious/whenargs/shared-with-expired-ctx",
				"WhenArgs(A,{k:1}) without ctx closed when another subscription's ctx expired", nil)
		}
	case 6, 7, 8: // WhenQueue: several waiters subscribed out of tick order
		m := mk(am.Schema{"A": {}, "B": {}, "C": {}, "D": {}})
		var chs [3]<-chan struct{}
		var ticks [3]am.Result
		order := [][]int{{2, 0, 1}, {1, 2, 0}, {2, 1, 0}}[c.Seed-6]
		early := ""
		_, _ = m.HandlersBindMaps(nil, map[string]am.HandlerFinal{
			"AState": func(e *am.Event) {
				// three queued mutations with growing ticks
				ticks[0], ticks[1], ticks[2] = m.Add1("B", nil), m.Add1("C", nil), m.Add1("D", nil)
				for _, k := range order {
					chs[k] = m.WhenQueue(ticks[k])
				}
				for k := range chs {
					if isClosed(chs[k]) {
						early += fmt.Sprintf(" WhenQueue(%d)", uint64(ticks[k]))
					}
				}
			},
		})
		m.Add1("A", nil)
		if early != "" {
			res.Violate("C06/spurious/whenqueue/before-processed", "closed before the mutation was processed:"+early, nil)
			return
		}
		for k := range chs {
			if chs[k] == nil {
				res.Inconclusive = "the handler did not run"
				return
			}
			if !isClosed(chs[k]) {
				res.Violate("C06/lost/whenqueue/out-of-order-subscriptions", fmt.Sprintf(
					"WhenQueue(%d) is still open on an idle machine (queue tick %d, active %v); the waiters were subscribed in the order %v of ticks %v",
					uint64(ticks[k]), m.QueueTick(), m.ActiveStates(nil), order, ticks), nil)
				return
			}
		}
	case 9, 10: // NewStateCtx asked between the applying of a target and the serving of the contexts
		// 9: a Multi state is re-activated (new instance), 10: a state is deactivated.
		// A context of the previous instance is cached; the one handed out in the
		// window is asked for at the new tick and has to live as long as that tick.
		m := mk(am.Schema{"M": {Multi: true}, "A": {}})
		st := "M"
		if c.Seed == 10 {
			st = "A"
		}
		m.Add1(st, nil)
		old := m.NewStateCtx(st)
		am.VerifHookClear()
		defer am.VerifHookClear()
		gate := make(chan struct{})
		reached := make(chan struct{})
		var once sync.Once
		am.VerifHookSet("tx.applied", func() {
			once.Do(func() {
				close(reached)
				select {
				case <-gate:
				case <-time.After(20 * time.Second):
				}
			})
		})
		done := make(chan struct{})
		go func() {
			if c.Seed == 9 {
				m.Add1(st, nil)
			} else {
				m.Remove1(st, nil)
			}
			close(done)
		}()
		select {
		case <-reached:
		case <-time.After(10 * time.Second):
			res.Inconclusive = "tx.applied not reached"
			close(gate)
			return
		}
		tickAtCall := m.Tick(st)
		fresh := m.NewStateCtx(st)
		close(gate)
		<-done
		<-m.WhenQueueEnds()
		if old.Err() == nil {
			res.Violate("C06/statectx/alive-after-tick-change", "the context of the previous instance of "+st+" is still alive", nil)
		}
		if m.Tick(st) == tickAtCall && fresh.Err() != nil {
			res.Violate("C06/statectx/canceled-without-tick-change/asked-while-transition-applies", fmt.Sprintf(
				"NewStateCtx(%s) asked after the running transition had applied its target (tick %d) was canceled although the tick is still %d "+
					"(it got the cached context of the previous instance)", st, tickAtCall, m.Tick(st)), nil)
		}
	case 11, 12, 13: // When / WhenNot on two states subscribed while a transition that changes one of them is being finished
		// 11: at tx.applied, 12: at pq.before-subs, 13: from the End handler of the state that goes
		m := mk(am.Schema{"A": {}, "B": {}, "C": {}})
		m.Add(am.S{"A", "B"}, nil)
		var notAB, whenAC <-chan struct{}
		subscribe := func() {
			notAB = m.WhenNot(am.S{"A", "B"}, nil) // B stays active: must stay open
			whenAC = m.When(am.S{"B", "C"}, nil)   // C stays inactive: must stay open
		}
		am.VerifHookClear()
		defer am.VerifHookClear()
		gate := make(chan struct{})
		reached := make(chan struct{})
		var once sync.Once
		park := func() {
			once.Do(func() {
				close(reached)
				select {
				case <-gate:
				case <-time.After(20 * time.Second):
				}
			})
		}
		switch c.Seed {
		case 11:
			am.VerifHookSet("tx.applied", park)
		case 12:
			am.VerifHookSet("pq.before-subs", park)
		case 13:
			_, _ = m.HandlersBindMaps(nil, map[string]am.HandlerFinal{"AEnd": func(*am.Event) { subscribe() }})
		}
		done := make(chan struct{})
		go func() { m.Remove1("A", nil); close(done) }()
		if c.Seed != 13 {
			select {
			case <-reached:
			case <-time.After(10 * time.Second):
				res.Inconclusive = "gate not reached"
				close(gate)
				return
			}
			subscribe()
			close(gate)
		}
		<-done
		<-m.WhenQueueEnds()
		if notAB == nil {
			res.Inconclusive = "no subscription was made"
			return
		}
		where := []string{"at tx.applied", "at pq.before-subs", "from the AEnd handler"}[c.Seed-11]
		if isClosed(notAB) {
			res.Violate("C06/spurious/whennot/subscribed-while-transition-finishes", fmt.Sprintf(
				"WhenNot[A B] subscribed %s of Remove1(A) closed although B is still active (active %v)", where, m.ActiveStates(nil)), nil)
		}
		if isClosed(whenAC) {
			res.Violate("C06/spurious/when/subscribed-while-transition-finishes", fmt.Sprintf(
				"When[B C] subscribed %s of Remove1(A) closed although C is inactive (active %v)", where, m.ActiveStates(nil)), nil)
		}
		// and they still work
		m.Remove1("B", nil)
		m.Add(am.S{"B", "C"}, nil)
		if !isClosed(notAB) {
			res.Violate("C06/lost/whennot/subscribed-while-transition-finishes", "WhenNot[A B] is still open after B was removed too", nil)
		}
		if !isClosed(whenAC) {
			res.Violate("C06/lost/when/subscribed-while-transition-finishes", "When[B C] is still open after B and C were added", nil)
		}
	case 14: // a state that stays activated by a transition whose later final handler faults
		m := mk(am.Schema{"A": {}, "B": {After: am.S{"A"}}, "C": {}})
		_, _ = m.HandlersBindMaps(nil, map[string]am.HandlerFinal{
			"AState": func(*am.Event) {},
			"BState": func(*am.Event) { panic("c06 fault") },
		})
		whenA := m.When1("A", nil)
		timeA := m.WhenTime1("A", 1, nil)
		m.Add(am.S{"A", "B"}, nil)
		m.Add1("C", nil)
		<-m.WhenQueueEnds()
		if !m.Is1("A") {
			// the rollback took A as well: nothing to wait for
			res.Count("fault_case_not_applicable", 1)
			return
		}
		if !isClosed(whenA) {
			res.Violate("C06/lost/when/activated-by-a-faulted-transition", fmt.Sprintf(
				"When[A] is open although A is active (tick %d): the transition that activated A faulted in B's final handler afterwards, and two more transitions have run since (%s)", m.Tick("A"), m.String()), nil)
		}
		if !isClosed(timeA) {
			res.Violate("C06/lost/whentime/activated-by-a-faulted-transition", fmt.Sprintf("WhenTime[A>=1] is open although A is at tick %d", m.Tick("A")), nil)
		}
	}
}
