package main

import "verif/core"

// runDirected replays the witnesses of known findings / fixed defects.
func runDirected(res *core.CaseResult, c core.CaseDesc) {
	res.Evals++
	res.Key("directed", c.Seed)
}
