// C12: the machine API is safe for concurrent use - no data races. The oracle
// is the Go race detector: this binary is built with -race, every generated
// program runs in its own process with GORACE=halt_on_error=0 log_path=...,
// and the report blocks found in the log are the violations.
package main

import (
	"context"
	"fmt"
	"math/rand/v2"
	"os"
	"os/exec"
	"path/filepath"
	"regexp"
	"runtime"
	"sort"
	"strconv"
	"strings"
	"sync"
	"sync/atomic"
	"time"

	am "github.com/pancsta/asyncmachine-go/pkg/machine"
	arpc "github.com/pancsta/asyncmachine-go/pkg/rpc"

	"verif/core"
	"verif/gen"
	"verif/rec"
)

type eng struct{}

func (eng) Property() string { return "C12" }
func (eng) Level() string    { return "exploration" }
func (eng) Rule() string {
	return "cases: generated concurrent programs, each in its own -race process: (mach) 2-16 goroutines, each a PRNG sequence of 20-60 calls " +
		"over the public method table of *Machine (mutations, Can*, getters, When*, NewStateCtx, HandlersBind/Detach, TracerBind/Detach, " +
		"SemLogger setters, SetTags, Export, OnDispose, Eval, Log, Inspect, String...) while transitions with handlers run, with yields at " +
		"the machine's schedule points, GOMAXPROCS in {2,8,16}, each program repeated 3x; (netmach) a NetworkMachine fed through " +
		"NetMachInternal.Lock/UpdateClock by 1-2 writers while 2-8 readers call its getters and When*. The race detector's report blocks " +
		"are parsed from the per-process log and deduplicated by the pair of innermost in-module functions. Evaluation = one API call " +
		"executed; distinct non-trivial = distinct pair of methods whose call intervals actually overlapped in some program."
}
func (eng) Assumptions() []string {
	return []string{
		"APIs documented as not thread-safe or as misuse are excluded: Resolver() methods, DisposeForce, Import, TestMockClock, SetSchema, Dispose",
		"the race detector only sees executed accesses; a report whose both stacks lie in the harness is a harness bug",
	}
}

func (eng) Cases(seed uint64, tier string) []core.CaseDesc {
	nm, nn := 200, 60
	if tier == "thorough" {
		nm, nn = 2400, 600
	}
	var cs []core.CaseDesc
	for i := 0; i < nm; i++ {
		cs = append(cs, core.CaseDesc{ID: fmt.Sprintf("mach/%05d", i), Kind: "mach", Seed: seed*1000003 + uint64(i)})
	}
	for i := 0; i < nn; i++ {
		cs = append(cs, core.CaseDesc{ID: fmt.Sprintf("netmach/%05d", i), Kind: "netmach", Seed: seed*2000003 + uint64(i)})
	}
	return cs
}

func (eng) CaseTimeout(string) time.Duration { return 5 * time.Minute }

// ---------- the program (runs in the grandchild process)

type call struct {
	name string
	fn   func(r *rand.Rand)
}

type overlapRec struct {
	mx     sync.Mutex
	active map[string]int
	pairs  map[string]bool
	calls  atomic.Int64
}

func (o *overlapRec) enter(name string) {
	o.mx.Lock()
	for other, n := range o.active {
		if n > 0 {
			a, b := name, other
			if a > b {
				a, b = b, a
			}
			o.pairs[a+"|"+b] = true
		}
	}
	o.active[name]++
	o.mx.Unlock()
	o.calls.Add(1)
}
func (o *overlapRec) leave(name string) {
	o.mx.Lock()
	o.active[name]--
	o.mx.Unlock()
}

type noopTracer struct{ *am.TracerNoOp }

func machTable(m *am.Machine, names []string, ctx context.Context) []call {
	pick := func(r *rand.Rand) string { return names[r.IntN(len(names))] }
	sub := func(r *rand.Rand) am.S { return am.S(gen.RandSubset(r, names, false)) }
	args := func() am.A { return am.A{"uid": rec.NextUid()} }
	var bindIds sync.Map
	var tracerIds sync.Map
	short := func() context.Context {
		c, cancel := context.WithCancel(ctx)
		go func() { time.Sleep(time.Millisecond); cancel() }()
		return c
	}
	return []call{
		{"Add", func(r *rand.Rand) { m.Add(sub(r), args()) }},
		{"Add1", func(r *rand.Rand) { m.Add1(pick(r), nil) }},
		{"Remove", func(r *rand.Rand) { m.Remove(sub(r), args()) }},
		{"Remove1", func(r *rand.Rand) { m.Remove1(pick(r), args()) }},
		{"Set", func(r *rand.Rand) { m.Set(sub(r), args()) }},
		{"Toggle", func(r *rand.Rand) { m.Toggle(sub(r), args()) }},
		{"Toggle1", func(r *rand.Rand) { m.Toggle1(pick(r), args()) }},
		{"AddErr", func(r *rand.Rand) { m.AddErr(rec.ErrInjected, nil) }},
		{"CanAdd", func(r *rand.Rand) { m.CanAdd(sub(r), nil) }},
		{"CanAdd1", func(r *rand.Rand) { m.CanAdd1(pick(r), nil) }},
		{"CanRemove", func(r *rand.Rand) { m.CanRemove(sub(r), nil) }},
		{"CanRemove1", func(r *rand.Rand) { m.CanRemove1(pick(r), nil) }},
		{"Is", func(r *rand.Rand) { m.Is(sub(r)) }},
		{"Is1", func(r *rand.Rand) { m.Is1(pick(r)) }},
		{"Not", func(r *rand.Rand) { m.Not(sub(r)) }},
		{"Not1", func(r *rand.Rand) { m.Not1(pick(r)) }},
		{"Any", func(r *rand.Rand) { m.Any(sub(r), sub(r)) }},
		{"Any1", func(r *rand.Rand) { m.Any1(pick(r), pick(r)) }},
		{"Has", func(r *rand.Rand) { m.Has(sub(r)) }},
		{"Has1", func(r *rand.Rand) { m.Has1(pick(r)) }},
		{"IsErr", func(r *rand.Rand) { m.IsErr() }},
		{"Err", func(r *rand.Rand) { _ = m.Err() }},
		{"ActiveStates", func(r *rand.Rand) { m.ActiveStates(nil) }},
		{"Tick", func(r *rand.Rand) { m.Tick(pick(r)) }},
		{"Time", func(r *rand.Rand) { m.Time(nil) }},
		{"TimeSub", func(r *rand.Rand) { m.Time(sub(r)) }},
		{"Clock", func(r *rand.Rand) { m.Clock(nil) }},
		{"IsTime", func(r *rand.Rand) { m.IsTime(m.Time(nil), nil) }},
		{"IsClock", func(r *rand.Rand) { m.IsClock(m.Clock(nil)) }},
		{"QueueTick", func(r *rand.Rand) { m.QueueTick() }},
		{"MachineTick", func(r *rand.Rand) { m.MachineTick() }},
		{"QueueLen", func(r *rand.Rand) { m.QueueLen() }},
		{"Queue", func(r *rand.Rand) { _ = m.Queue() }},
		{"Transition", func(r *rand.Rand) { _ = m.Transition() }},
		{"StateNames", func(r *rand.Rand) { _ = m.StateNames() }},
		{"Schema", func(r *rand.Rand) { _ = m.Schema() }},
		{"Switch", func(r *rand.Rand) { m.Switch(sub(r)) }},
		{"Index", func(r *rand.Rand) { m.Index(sub(r)) }},
		{"Index1", func(r *rand.Rand) { m.Index1(pick(r)) }},
		{"String", func(r *rand.Rand) { _ = m.String() }},
		{"StringAll", func(r *rand.Rand) { _ = m.StringAll() }},
		{"Inspect", func(r *rand.Rand) { _ = m.Inspect(nil) }},
		{"Export", func(r *rand.Rand) { _, _, _ = m.Export() }},
		{"Id", func(r *rand.Rand) { _ = m.Id() }},
		{"Tags", func(r *rand.Rand) { _ = m.Tags() }},
		{"SetTags", func(r *rand.Rand) { m.SetTags([]string{"a", pick(r)}) }},
		{"ParseStates", func(r *rand.Rand) { m.ParseStates(sub(r)) }},
		{"When", func(r *rand.Rand) { _ = m.When(sub(r), short()) }},
		{"When1", func(r *rand.Rand) { _ = m.When1(pick(r), nil) }},
		{"WhenNot", func(r *rand.Rand) { _ = m.WhenNot(sub(r), short()) }},
		{"WhenNot1", func(r *rand.Rand) { _ = m.WhenNot1(pick(r), nil) }},
		{"WhenTime1", func(r *rand.Rand) { _ = m.WhenTime1(pick(r), uint64(r.IntN(50)), short()) }},
		{"WhenTicks", func(r *rand.Rand) { _ = m.WhenTicks(pick(r), 1+r.IntN(3), nil) }},
		{"WhenNextActive", func(r *rand.Rand) { _ = m.WhenNextActive(pick(r), nil) }},
		{"WhenQuery", func(r *rand.Rand) {
			s := pick(r)
			_ = m.WhenQuery(func(c am.Clock) bool { return c[s] > 1000 }, short())
		}},
		{"WhenArgs", func(r *rand.Rand) { _ = m.WhenArgs(pick(r), am.A{"uid": "u1"}, short()) }},
		{"WhenErr", func(r *rand.Rand) { _ = m.WhenErr(nil) }},
		{"WhenQueue", func(r *rand.Rand) { _ = m.WhenQueue(am.Result(m.QueueTick() + uint64(r.IntN(3)))) }},
		{"WhenQueueEnds", func(r *rand.Rand) { _ = m.WhenQueueEnds() }},
		{"WhenDisposed", func(r *rand.Rand) { _ = m.WhenDisposed() }},
		{"NewStateCtx", func(r *rand.Rand) { _ = m.NewStateCtx(pick(r)) }},
		{"IsDisposed", func(r *rand.Rand) { m.IsDisposed() }},
		{"HandlersBindMaps", func(r *rand.Rand) {
			s := pick(r)
			id, err := m.HandlersBindMaps(map[string]am.HandlerNegotiation{
				s + "Enter": func(e *am.Event) bool { return true },
			}, map[string]am.HandlerFinal{s + "State": func(e *am.Event) {}})
			if err == nil {
				bindIds.Store(id, true)
			}
		}},
		{"HandlersDetach", func(r *rand.Rand) {
			bindIds.Range(func(k, v any) bool {
				bindIds.Delete(k)
				_ = m.HandlersDetach(k.(string))
				return false
			})
		}},
		{"Handlers", func(r *rand.Rand) { _ = m.Handlers() }},
		{"TracerBind", func(r *rand.Rand) {
			id := "t" + rec.NextUid()
			if _, err := m.TracerBind(&noopTracer{&am.TracerNoOp{Id: id}}); err == nil {
				tracerIds.Store(id, true)
			}
		}},
		{"TracerDetach", func(r *rand.Rand) {
			tracerIds.Range(func(k, v any) bool {
				tracerIds.Delete(k)
				_ = m.TracerDetach(k.(string))
				return false
			})
		}},
		{"Tracers", func(r *rand.Rand) { _ = m.Tracers() }},
		{"SemLogger.SetLevel", func(r *rand.Rand) { m.SemLogger().SetLevel(am.LogLevel(r.IntN(3))) }},
		{"SemLogger.Level", func(r *rand.Rand) { m.SemLogger().Level() }},
		{"SemLogger.SetLogger", func(r *rand.Rand) { m.SemLogger().SetLogger(func(l am.LogLevel, msg string, a ...any) {}) }},
		{"SemLogger.EnableId", func(r *rand.Rand) { m.SemLogger().EnableId(r.IntN(2) == 0) }},
		{"Log", func(r *rand.Rand) { m.Log("x %d", 1) }},
		{"OnDispose", func(r *rand.Rand) { m.OnDispose(func(id string, ctx context.Context) {}) }},
		{"OnChange", func(r *rand.Rand) { m.OnChange(func(mach *am.Machine, before, after am.Time) {}) }},
		{"Eval", func(r *rand.Rand) { m.Eval("verif", func() {}, nil) }},
		{"StatesVerified", func(r *rand.Rand) { m.StatesVerified() }},
		{"Context", func(r *rand.Rand) { _ = m.Context() }},
		{"IsQueued", func(r *rand.Rand) { m.IsQueued(am.MutationAdd, sub(r), false, false, 0, false, am.PositionAny) }},
		{"WillBe", func(r *rand.Rand) { m.WillBe(sub(r)) }},
		{"Backoff", func(r *rand.Rand) { m.Backoff() }},
	}
}

func runMachProgram(seed uint64) {
	r := gen.NewRand(seed, 12)
	spec := gen.RandSchema(r, gen.SchemaOpts{MinStates: 3, MaxStates: 6,
		PRequire: r.Float64() * 0.15, PAdd: r.Float64() * 0.2, PRemove: r.Float64() * 0.2,
		PAuto: r.Float64() * 0.2, PMulti: r.Float64() * 0.4})
	runtime.GOMAXPROCS([]int{2, 8, 16}[r.IntN(3)])
	ctx, cancel := context.WithCancel(context.Background())
	defer cancel()
	tr := &noopTracer{&am.TracerNoOp{Id: "base"}}
	m := am.New(ctx, spec.Schema(), &am.Opts{Id: "c12", Tracers: []am.Tracer{tr}, DontLogId: true,
		DontLogStackTrace: true, HandlerTimeout: 10 * time.Second})
	m.SemLogger().SetLogger(func(l am.LogLevel, msg string, a ...any) {})
	hl := &rec.HLog{}
	_, _ = rec.BindMaps(m, hl, 0, rec.AllHandlerNames(gen.Sorted(spec.Names)), func(c *rec.HCall, e *am.Event) bool {
		return true
	})
	yield := func() { runtime.Gosched() }
	for _, p := range []string{"qm.appended", "pq.cas-lost", "pq.loop-exit", "pq.released", "tx.applied", "tx.before-end", "pq.before-subs"} {
		if r.IntN(2) == 0 {
			am.VerifHookSet(p, yield)
		}
	}
	table := machTable(m, spec.Names, ctx)
	ov := &overlapRec{active: map[string]int{}, pairs: map[string]bool{}}
	for rep := 0; rep < 3; rep++ {
		nG := 2 + r.IntN(15)
		var wg sync.WaitGroup
		for g := 0; g < nG; g++ {
			gr := rand.New(rand.NewPCG(seed, uint64(rep*100+g)))
			n := 20 + gr.IntN(41)
			wg.Add(1)
			go func() {
				defer wg.Done()
				for i := 0; i < n; i++ {
					c := table[gr.IntN(len(table))]
					func() {
						defer func() { _ = recover() }()
						ov.enter(c.name)
						defer ov.leave(c.name)
						c.fn(gr)
					}()
				}
			}()
		}
		wg.Wait()
	}
	select {
	case <-m.WhenQueueEnds():
	case <-time.After(5 * time.Second):
	}
	report(ov)
}

func report(ov *overlapRec) {
	ov.mx.Lock()
	defer ov.mx.Unlock()
	var ps []string
	for p := range ov.pairs {
		ps = append(ps, p)
	}
	sort.Strings(ps)
	fmt.Printf("CALLS %d\n", ov.calls.Load())
	fmt.Printf("PAIRS %s\n", strings.Join(ps, ","))
}

type fakeConn struct{}

func (fakeConn) Call(ctx context.Context, method arpc.ServerMethod, args any, resp any) bool {
	return false
}
func (fakeConn) Notify(ctx context.Context, method arpc.ServerMethod, args any) bool { return false }

func runNetMachProgram(seed uint64) {
	r := gen.NewRand(seed, 121)
	runtime.GOMAXPROCS([]int{2, 8, 16}[r.IntN(3)])
	ctx, cancel := context.WithCancel(context.Background())
	defer cancel()
	names := am.S{"A", "B", "C", "D", am.StateException}
	schema := am.Schema{"A": {}, "B": {Multi: true}, "C": {}, "D": {}, am.StateException: {Multi: true}}
	parent := am.New(ctx, am.Schema{"P": {}}, &am.Opts{Id: "c12parent"})
	nm, in, err := arpc.NewNetworkMachine(ctx, "c12nm", fakeConn{}, schema, names, parent, nil, false)
	if err != nil {
		fmt.Println("SKIP", err)
		return
	}
	ov := &overlapRec{active: map[string]int{}, pairs: map[string]bool{}}
	user := []string{"A", "B", "C", "D"}
	pick := func(r *rand.Rand) string { return user[r.IntN(len(user))] }
	sub := func(r *rand.Rand) am.S { return am.S(gen.RandSubset(r, user, false)) }
	table := []call{
		{"Is", func(r *rand.Rand) { nm.Is(sub(r)) }},
		{"Is1", func(r *rand.Rand) { nm.Is1(pick(r)) }},
		{"Not", func(r *rand.Rand) { nm.Not(sub(r)) }},
		{"Any1", func(r *rand.Rand) { nm.Any1(pick(r), pick(r)) }},
		{"Tick", func(r *rand.Rand) { nm.Tick(pick(r)) }},
		{"Time", func(r *rand.Rand) { nm.Time(nil) }},
		{"Clock", func(r *rand.Rand) { nm.Clock(nil) }},
		{"ActiveStates", func(r *rand.Rand) { nm.ActiveStates(nil) }},
		{"QueueTick", func(r *rand.Rand) { nm.QueueTick() }},
		{"MachineTick", func(r *rand.Rand) { nm.MachineTick() }},
		{"StateNames", func(r *rand.Rand) { _ = nm.StateNames() }},
		{"String", func(r *rand.Rand) { _ = nm.String() }},
		{"StringAll", func(r *rand.Rand) { _ = nm.StringAll() }},
		{"Inspect", func(r *rand.Rand) { _ = nm.Inspect(nil) }},
		{"IsErr", func(r *rand.Rand) { nm.IsErr() }},
		{"Has1", func(r *rand.Rand) { nm.Has1(pick(r)) }},
		{"IsTime", func(r *rand.Rand) { nm.IsTime(nm.Time(nil), nil) }},
		{"Switch", func(r *rand.Rand) { nm.Switch(sub(r)) }},
		{"Index1", func(r *rand.Rand) { nm.Index1(pick(r)) }},
		{"When", func(r *rand.Rand) { _ = nm.When(sub(r), nil) }},
		{"WhenNot", func(r *rand.Rand) { _ = nm.WhenNot(sub(r), nil) }},
		{"WhenTime1", func(r *rand.Rand) { _ = nm.WhenTime1(pick(r), uint64(r.IntN(200)), nil) }},
		{"WhenTicks", func(r *rand.Rand) { _ = nm.WhenTicks(pick(r), 1+r.IntN(3), nil) }},
		{"WhenQueue", func(r *rand.Rand) { _ = nm.WhenQueue(am.Result(nm.QueueTick() + uint64(r.IntN(4)))) }},
		{"NewStateCtx", func(r *rand.Rand) { _ = nm.NewStateCtx(pick(r)) }},
		{"Tags", func(r *rand.Rand) { _ = nm.Tags() }},
		{"Schema", func(r *rand.Rand) { _ = nm.Schema() }},
		{"Transition", func(r *rand.Rand) { _ = nm.Transition() }},
	}
	var wg sync.WaitGroup
	stop := atomic.Bool{}
	nW := 1 + r.IntN(2)
	var wmx sync.Mutex
	cur := make(am.Time, len(names))
	var q uint64 = 1
	for w := 0; w < nW; w++ {
		wr := rand.New(rand.NewPCG(seed, uint64(1000+w)))
		wg.Add(1)
		go func() {
			defer wg.Done()
			for i := 0; i < 300; i++ {
				wmx.Lock()
				for k := 0; k < 1+wr.IntN(3); k++ {
					cur[wr.IntN(4)] += uint64(1 + wr.IntN(2))
				}
				q += uint64(wr.IntN(3))
				t := append(am.Time(nil), cur...)
				qq := q
				ov.enter("UpdateClock")
				in.Lock()
				in.UpdateClock(t, qq, 0)
				ov.leave("UpdateClock")
				wmx.Unlock()
				if i%7 == 0 {
					runtime.Gosched()
				}
			}
			stop.Store(true)
		}()
	}
	nR := 2 + r.IntN(7)
	for g := 0; g < nR; g++ {
		gr := rand.New(rand.NewPCG(seed, uint64(g)))
		wg.Add(1)
		go func() {
			defer wg.Done()
			for i := 0; i < 3000 && !stop.Load(); i++ {
				c := table[gr.IntN(len(table))]
				func() {
					defer func() { _ = recover() }()
					ov.enter(c.name)
					defer ov.leave(c.name)
					c.fn(gr)
				}()
			}
		}()
	}
	wg.Wait()
	report(ov)
}

// ---------- parent side: run the program in a -race process, parse the log

var reFrame = regexp.MustCompile(`^  (\S+)\(`)

// parseRace extracts report blocks and returns, per block, the two innermost
// in-module functions and whether any stack touches the module.
type raceBlock struct {
	a, b string
	text string
	repo bool
}

const repoPfx = "github.com/pancsta/asyncmachine-go/"

func parseRace(log string) []raceBlock {
	var ret []raceBlock
	for _, blk := range strings.Split(log, "==================") {
		if !strings.Contains(blk, "WARNING: DATA RACE") {
			continue
		}
		// the first two stacks: "<Access> at ... by goroutine N:" and "Previous <access> at ..."
		lines := strings.Split(blk, "\n")
		var stacks [][]string
		var cur []string
		in := false
		for _, l := range lines {
			if strings.Contains(l, " by goroutine ") || strings.Contains(l, " by main goroutine") {
				if in {
					stacks = append(stacks, cur)
				}
				cur = nil
				in = true
				continue
			}
			if strings.HasPrefix(l, "Goroutine ") {
				if in {
					stacks = append(stacks, cur)
				}
				in = false
				continue
			}
			if in {
				if m := reFrame.FindStringSubmatch(l); m != nil {
					cur = append(cur, m[1])
				}
			}
		}
		if in {
			stacks = append(stacks, cur)
		}
		inner := func(st []string) string {
			for _, f := range st {
				if strings.HasPrefix(f, repoPfx) {
					f = strings.TrimPrefix(f, repoPfx)
					// pkg/machine.(*Machine).StateNames -> machine.Machine.StateNames
					f = strings.NewReplacer("(*", "", ")", "", "pkg/", "").Replace(f)
					// strip closures func1.2
					f = regexp.MustCompile(`\.func\d+(\.\d+)*$`).ReplaceAllString(f, "")
					return f
				}
			}
			return "harness"
		}
		rb := raceBlock{text: strings.TrimSpace(blk)}
		if len(stacks) >= 2 {
			rb.a, rb.b = inner(stacks[0]), inner(stacks[1])
		} else if len(stacks) == 1 {
			rb.a, rb.b = inner(stacks[0]), "unknown"
		}
		if rb.a > rb.b {
			rb.a, rb.b = rb.b, rb.a
		}
		rb.repo = rb.a != "harness" || rb.b != "harness"
		ret = append(ret, rb)
	}
	return ret
}

func (eng) Run(c core.CaseDesc, tier string) *core.CaseResult {
	res := &core.CaseResult{Case: c}
	dir := filepath.Join(core.VerifDir, ".build", "run", "C12-race")
	_ = os.MkdirAll(dir, 0o755)
	logBase := filepath.Join(dir, strings.ReplaceAll(c.ID, "/", "_"))
	old, _ := filepath.Glob(logBase + ".*")
	for _, f := range old {
		_ = os.Remove(f)
	}
	cmd := exec.Command(os.Args[0])
	cmd.Env = append(os.Environ(), "VERIF_C12_PROG="+c.Kind+":"+strconv.FormatUint(c.Seed, 10),
		"GORACE=halt_on_error=0 log_path="+logBase)
	outB := &strings.Builder{}
	cmd.Stdout = outB
	cmd.Stderr = outB
	done := make(chan error, 1)
	if err := cmd.Start(); err != nil {
		res.Inconclusive = "start: " + err.Error()
		return res
	}
	go func() { done <- cmd.Wait() }()
	select {
	case <-done:
	case <-time.After(3 * time.Minute):
		_ = cmd.Process.Kill()
		res.Inconclusive = "program did not finish"
		return res
	}
	out := outB.String()
	for _, l := range strings.Split(out, "\n") {
		if strings.HasPrefix(l, "CALLS ") {
			n, _ := strconv.ParseInt(strings.TrimPrefix(l, "CALLS "), 10, 64)
			res.Evals += n
		}
		if strings.HasPrefix(l, "PAIRS ") {
			for _, p := range strings.Split(strings.TrimPrefix(l, "PAIRS "), ",") {
				if p != "" {
					res.Key(c.Kind, p)
				}
			}
		}
	}
	if strings.Contains(out, "fatal error:") || strings.Contains(out, "panic:") {
		res.Violate("C12/fatal/"+firstFatal(out), "the program died: "+firstFatal(out), trunc(out, 4000))
	}
	logs, _ := filepath.Glob(logBase + ".*")
	for _, f := range logs {
		b, _ := os.ReadFile(f)
		for _, rb := range parseRace(string(b)) {
			res.Count("race_report_blocks", 1)
			if !rb.repo {
				res.Violate("C12/harness-race", "race with both stacks in the harness", trunc(rb.text, 3000))
				continue
			}
			res.Violate("C12/race/"+rb.a+"|"+rb.b, fmt.Sprintf("data race between %s and %s", rb.a, rb.b), trunc(rb.text, 5000))
		}
		_ = os.Remove(f)
	}
	if strings.HasSuffix(c.ID, "/00000") {
		res.Sample = map[string]any{"kind": c.Kind, "seed": c.Seed, "output_head": trunc(out, 300)}
	}
	return res
}

func firstFatal(out string) string {
	for _, l := range strings.Split(out, "\n") {
		if strings.HasPrefix(l, "fatal error:") || strings.HasPrefix(l, "panic:") {
			return trunc(l, 100)
		}
	}
	return "unknown"
}

func trunc(s string, n int) string {
	if len(s) > n {
		return s[:n]
	}
	return s
}

func main() {
	if p := os.Getenv("VERIF_C12_PROG"); p != "" {
		parts := strings.SplitN(p, ":", 2)
		seed, _ := strconv.ParseUint(parts[1], 10, 64)
		if parts[0] == "mach" {
			runMachProgram(seed)
		} else {
			runNetMachProgram(seed)
		}
		return
	}
	core.Main(eng{})
}
