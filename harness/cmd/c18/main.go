// C18: pipes make the target follow the source.
package main

import (
	"context"
	"encoding/json"
	"fmt"
	"slices"
	"sort"
	"strings"
	"sync"
	"time"

	amhelp "github.com/pancsta/asyncmachine-go/pkg/helpers"
	am "github.com/pancsta/asyncmachine-go/pkg/machine"
	ss "github.com/pancsta/asyncmachine-go/pkg/states"
	ampipe "github.com/pancsta/asyncmachine-go/pkg/states/pipes"

	"verif/core"
	"verif/gen"
	"verif/rec"
	"verif/rpcloop"
)

type eng struct{}

func (eng) Property() string { return "C18" }
func (eng) Level() string    { return "exploration" }
func (eng) Rule() string {
	return "cases: a source machine piped to a target with Bind / BindMany / AddFlat+RemoveFlat / BindReady / BindConnected / " +
		"BindErr / BindAny, driven by PRNG toggle bursts (1..200 mutations, Multi or plain states, one issuing goroutine) " +
		"under a schedule: natural (the Go scheduler decides), overtake (an am.Api proxy in front of the target holds an " +
		"arriving forwarded call until the next one has been applied - a schedule the scheduler may produce, since every " +
		"non-flat event is forwarded in its own goroutine), busy (the target is parked inside a handler while the burst " +
		"runs, then released). Local targets and NetworkMachine targets over a loopback RPC pair (with a stalled link for " +
		"the never-blocks clause); errpipe: plain and flat pipes into an Err-prefixed target state with the target already in Exception or not; " +
		"optional: BindConnected with every subset of its four target states left out. Judged at joint quiescence: every forwarded call the source's handlers made has been " +
		"applied. An evaluation is one bound state pair (or the whole set for BindAny) compared; a distinct item is a " +
		"distinct (bind, schedule, target kind, final source activity)."
}
func (eng) Assumptions() []string {
	return []string{
		"the target has no vetoing handlers (the statement's premise)",
		"flat + local pipes are synchronous calls; the proxy does not reorder them",
		"the number of forwarded calls is known from the source tracer's handler events; quiescence is reached when the proxy applied as many",
	}
}

type pipeP struct {
	Bind  string `json:"bind"`
	Sched string `json:"sched"`
	Multi bool   `json:"multi,omitempty"`
	N     int    `json:"n"`
	Net   bool   `json:"net,omitempty"`
	// Script replaces the PRNG burst
	Script []gen.Op `json:"script,omitempty"`
}

func mk(id, kind string, seed uint64, p any) core.CaseDesc {
	var raw json.RawMessage
	if p != nil {
		raw, _ = json.Marshal(p)
	}
	return core.CaseDesc{ID: id, Kind: kind, Seed: seed, P: raw}
}

var binds = []string{"bind", "bindmany", "flat", "bindready", "bindconnected", "binderr", "bindany"}
var scheds = []string{"natural", "overtake", "busy"}

func (eng) Cases(seed uint64, tier string) []core.CaseDesc {
	var cs []core.CaseDesc
	reps := 3
	netReps := 1
	if tier == "thorough" {
		reps = 60
		netReps = 12
	}
	i := 0
	for _, b := range binds {
		for _, s := range scheds {
			for r := 0; r < reps; r++ {
				i++
				rr := gen.NewRand(seed*7919+uint64(i), 1)
				n := 1 + rr.IntN(12)
				if r%3 == 2 {
					n = 20 + rr.IntN(180)
				}
				cs = append(cs, mk(fmt.Sprintf("pipe/%s/%s/%03d", b, s, r), "pipe", seed*1000003+uint64(i), pipeP{Bind: b, Sched: s,
					Multi: rr.IntN(3) == 0, N: n}))
			}
		}
	}
	// directed: forwarded calls without args (auto transitions) reach a parked
	// target as [Add X, Remove X, ..., Add X]: the last one must not be taken
	// for a duplicate of the first
	c := ss.ConnectedStates
	cs = append(cs, mk("pipe/bindconnected/busy-dedup", "pipe", seed, pipeP{Bind: "bindconnected", Sched: "busy", Script: []gen.Op{
		{Kind: "add", States: []string{"Start"}}, {Kind: "add", States: []string{c.Disconnecting}}, {Kind: "remove", States: []string{c.Disconnecting}},
		{Kind: "add", States: []string{c.Disconnecting}}, {Kind: "remove", States: []string{c.Disconnecting}},
	}}))
	// directed: the forwarded Remove arrives while the target is inside the
	// transition that activates the state (parked in its Enter handler)
	cs = append(cs, mk("pipe/bind/mid-add", "pipe", seed, pipeP{Bind: "bind", Sched: "midadd", Script: []gen.Op{
		{Kind: "add", States: []string{"A"}}, {Kind: "remove", States: []string{"A"}},
	}}))
	for _, b := range []string{"bind", "bindmany", "flat", "bindany"} {
		for _, s := range []string{"natural", "overtake"} {
			for r := 0; r < netReps; r++ {
				i++
				rr := gen.NewRand(seed*7919+uint64(i), 2)
				cs = append(cs, mk(fmt.Sprintf("net/%s/%s/%03d", b, s, r), "pipe", seed*1000003+uint64(i), pipeP{Bind: b, Sched: s,
					Multi: rr.IntN(3) == 0, N: 1 + rr.IntN(25), Net: true}))
			}
		}
	}
	// pipes into Err-prefixed target states (forwarded together with Exception),
	// the target being in Exception already or not
	for k := 0; k < 8; k++ {
		cs = append(cs, mk(fmt.Sprintf("errpipe/%02d", k), "errpipe", uint64(k), pipeP{}))
	}
	// helpers.NewMirror (flat and plain) under quick toggles of the source
	nm := 4
	if tier == "thorough" {
		nm = 60
	}
	for k := 0; k < nm; k++ {
		cs = append(cs, mk(fmt.Sprintf("mirror/%03d", k), "mirror", seed*7000003+uint64(k), pipeP{}))
	}
	// BindConnected with some of its four (optional) target states left out
	for k := 1; k < 15; k++ {
		cs = append(cs, mk(fmt.Sprintf("optional/%02d", k), "optional", uint64(k), pipeP{}))
	}
	for _, b := range []string{"bind", "flat"} {
		for r := 0; r < netReps; r++ {
			i++
			cs = append(cs, mk(fmt.Sprintf("stall/%s/%03d", b, r), "stall", seed*1000003+uint64(i), pipeP{Bind: b, N: 4, Net: true}))
		}
	}
	return cs
}

func (eng) CaseTimeout(tier string) time.Duration { return 120 * time.Second }

func (eng) Children(tier string) int { return 8 }

func main() { core.Main(eng{}) }

// ---------- the proxy in front of the target

type arrival struct {
	k      int
	kind   string
	states am.S
	uid    string
	// srcTx: the source transition whose handler forwarded this call
	srcTx string
	done  chan struct{}
	res   am.Result
}

type proxy struct {
	am.Api
	mx       sync.Mutex
	arrivals []*arrival
	applied  int
	// callMx serialises the calls into the target, so that calls (the order
	// of which the target's queue preserves) has a definite order
	callMx sync.Mutex
	calls  []*arrival
	// serial: hold callMx across the call (local targets, whose mutation calls
	// return at once)
	serial bool
	// hold: the schedule. Called with the arrival before it is applied.
	hold func(p *proxy, a *arrival)
}

func uidOf(args am.A) string {
	if args == nil {
		return ""
	}
	if s, ok := args["uid"].(string); ok {
		return s
	}
	return ""
}

func (p *proxy) arrive(e *am.Event, kind string, states am.S, args am.A) *arrival {
	p.mx.Lock()
	a := &arrival{k: len(p.arrivals), kind: kind, states: slices.Clone(states), uid: uidOf(args), done: make(chan struct{})}
	if e != nil {
		a.srcTx = e.TransitionId
	}
	p.arrivals = append(p.arrivals, a)
	hold := p.hold
	p.mx.Unlock()
	if hold != nil {
		hold(p, a)
	}
	p.callMx.Lock()
	p.calls = append(p.calls, a)
	if !p.serial {
		// a network target may block in the call: only the stamp is ordered
		p.callMx.Unlock()
	}
	return a
}

func (p *proxy) finish(a *arrival, r am.Result) am.Result {
	if p.serial {
		p.callMx.Unlock()
	}
	p.mx.Lock()
	a.res = r
	p.applied++
	p.mx.Unlock()
	close(a.done)
	return r
}

func (p *proxy) counts() (arrived, applied int) {
	p.mx.Lock()
	defer p.mx.Unlock()
	return len(p.arrivals), p.applied
}

func (p *proxy) next(k int) *arrival {
	p.mx.Lock()
	defer p.mx.Unlock()
	if k < len(p.arrivals) {
		return p.arrivals[k]
	}
	return nil
}

func (p *proxy) EvAdd(e *am.Event, states am.S, args am.A) am.Result {
	a := p.arrive(e, "add", states, args)
	return p.finish(a, p.Api.EvAdd(e, states, args))
}
func (p *proxy) EvAdd1(e *am.Event, state string, args am.A) am.Result {
	a := p.arrive(e, "add", am.S{state}, args)
	return p.finish(a, p.Api.EvAdd1(e, state, args))
}
func (p *proxy) EvRemove(e *am.Event, states am.S, args am.A) am.Result {
	a := p.arrive(e, "remove", states, args)
	return p.finish(a, p.Api.EvRemove(e, states, args))
}
func (p *proxy) EvRemove1(e *am.Event, state string, args am.A) am.Result {
	a := p.arrive(e, "remove", am.S{state}, args)
	return p.finish(a, p.Api.EvRemove1(e, state, args))
}
func (p *proxy) Add(states am.S, args am.A) am.Result {
	a := p.arrive(nil, "add", states, args)
	return p.finish(a, p.Api.Add(states, args))
}
func (p *proxy) Remove(states am.S, args am.A) am.Result {
	a := p.arrive(nil, "remove", states, args)
	return p.finish(a, p.Api.Remove(states, args))
}
func (p *proxy) Set(states am.S, args am.A) am.Result {
	a := p.arrive(nil, "set", states, args)
	return p.finish(a, p.Api.Set(states, args))
}

// overtake: every even arrival waits until the following arrival has been
// applied (or, when none comes, for a moment), so the later call reaches the
// target first.
func overtake(p *proxy, a *arrival) {
	if a.k%2 != 0 {
		return
	}
	for i := 0; i < 150; i++ {
		if n := p.next(a.k + 1); n != nil {
			select {
			case <-n.done:
			case <-time.After(2 * time.Second):
			}
			return
		}
		time.Sleep(2 * time.Millisecond)
	}
}

// ---------- scenario

type pair struct{ src, dst string }

type scen struct {
	source  *am.Machine
	target  *am.Machine // the real target
	tapi    *proxy      // what the pipes talk to
	str, tt *rec.Tracer
	pairs   []pair
	// states the burst toggles on the source
	toggle []string
	// handlers of the source that forward (for the expected count)
	fwd     map[string]bool
	bindAny bool
	addOnly bool
	release chan struct{}
	parked  chan struct{}
	rpc     *rpcloop.Pair
	abandon bool
}

func (s *scen) close() {
	if s.abandon {
		// a wedged source: clean up without waiting for it
		go func() {
			if s.rpc != nil {
				s.rpc.Close()
			}
			s.source.Dispose()
			s.target.Dispose()
		}()
		return
	}
	if s.rpc != nil {
		s.rpc.Close()
	}
	s.source.Dispose()
	s.target.Dispose()
}

func schemaOf(names []string, multi bool, extra am.Schema) am.Schema {
	sc := am.Schema{}
	for _, n := range names {
		sc[n] = am.State{Multi: multi}
	}
	for k, v := range extra {
		sc[k] = v
	}
	return sc
}

func build(p pipeP) (*scen, error) {
	ctx := context.Background()
	s := &scen{fwd: map[string]bool{}, release: make(chan struct{}), parked: make(chan struct{})}
	var srcSchema, dstSchema am.Schema
	hold := am.Schema{"Hold": {}}
	switch p.Bind {
	case "bind", "flat":
		srcSchema = schemaOf([]string{"A", "B"}, p.Multi, nil)
		dstSchema = schemaOf([]string{"TA", "TB"}, p.Multi, hold)
		s.pairs = []pair{{"A", "TA"}}
		s.toggle = []string{"A", "B"}
	case "bindmany":
		srcSchema = schemaOf([]string{"A", "B", "C"}, p.Multi, nil)
		dstSchema = schemaOf([]string{"TA", "TB", "TC"}, p.Multi, hold)
		s.pairs = []pair{{"A", "TA"}, {"B", "TB"}, {"C", "TC"}}
		s.toggle = []string{"A", "B", "C"}
	case "bindready":
		srcSchema = schemaOf([]string{"Ready", "B"}, p.Multi, nil)
		dstSchema = schemaOf([]string{"SrcReady", "TB"}, p.Multi, hold)
		s.pairs = []pair{{"Ready", "SrcReady"}}
		s.toggle = []string{"Ready", "B"}
	case "bindconnected":
		srcSchema = am.SchemaMerge(ss.ConnectedSchema, am.Schema{"Start": {}})
		dstSchema = schemaOf([]string{"XDisconnected", "XConnecting", "XConnected", "XDisconnecting"}, false, hold)
		c := ss.ConnectedStates
		s.pairs = []pair{{c.Disconnected, "XDisconnected"}, {c.Connecting, "XConnecting"}, {c.Connected, "XConnected"}, {c.Disconnecting, "XDisconnecting"}}
		s.toggle = []string{"Start", c.Connecting, c.Connected, c.Disconnecting, c.Disconnected}
	case "binderr":
		srcSchema = schemaOf([]string{"A"}, p.Multi, nil)
		dstSchema = schemaOf([]string{"ErrSrc", "TA"}, false, hold)
		s.pairs = []pair{{am.StateException, "ErrSrc"}}
		s.toggle = []string{am.StateException, "A"}
		s.addOnly = true
	case "bindany":
		srcSchema = schemaOf([]string{"A", "B", "C"}, p.Multi, nil)
		dstSchema = schemaOf([]string{"A", "B", "C"}, p.Multi, hold)
		s.toggle = []string{"A", "B", "C"}
		s.bindAny = true
	}
	s.str, s.tt = rec.NewTracer("src"), rec.NewTracer("dst")
	s.str.NoSample, s.tt.NoSample = true, true
	srcTimeout := 60 * time.Second
	if p.Net {
		// a pipe that blocks the source's handler on the network ends in a
		// handler timeout: keep that case short
		srcTimeout = 4 * time.Second
	}
	s.source = am.New(ctx, srcSchema, &am.Opts{Id: "c18src", DontLogId: true, DontLogStackTrace: true, Tracers: []am.Tracer{s.str},
		HandlerTimeout: srcTimeout, HandlerDeadline: 2 * time.Second, QueueLimit: 10000})
	s.target = am.New(ctx, dstSchema, &am.Opts{Id: "c18dst", DontLogId: true, DontLogStackTrace: true, Tracers: []am.Tracer{s.tt},
		HandlerTimeout: 60 * time.Second, QueueLimit: 10000})
	// the parking handler of the busy schedule
	if p.Sched == "midadd" {
		var once sync.Once
		_, _ = s.target.HandlersBindMaps(map[string]am.HandlerNegotiation{
			"TAEnter": func(e *am.Event) bool {
				once.Do(func() {
					close(s.parked)
					<-s.release
				})
				return true
			},
		}, nil)
	}
	if p.Sched == "busy" {
		_, _ = s.target.HandlersBindMaps(nil, map[string]am.HandlerFinal{
			"HoldState": func(e *am.Event) {
				close(s.parked)
				<-s.release
			},
		})
	}
	var tapi am.Api = s.target
	if p.Net {
		if err := s.target.VerifyStates(s.target.StateNames()); err != nil {
			return nil, err
		}
		pr, err := rpcloop.NewPair(s.target, rpcloop.Opts{})
		if err != nil {
			return nil, err
		}
		s.rpc = pr
		tapi = pr.C.NetMach
	}
	// (mid-add parks the target inside a forwarded call: the call log is only stamped there)
	s.tapi = &proxy{Api: tapi, serial: !p.Net && p.Sched != "midadd"}
	if p.Sched == "overtake" {
		s.tapi.hold = overtake
	}
	var err error
	switch p.Bind {
	case "bind":
		_, err = ampipe.Bind(s.source, s.tapi, "A", "TA", "")
		s.fwd["AState"], s.fwd["AEnd"] = true, true
	case "flat":
		h := &struct {
			AState am.HandlerFinal
			AEnd   am.HandlerFinal
		}{AState: ampipe.AddFlat(s.source, s.tapi, "A", "TA"), AEnd: ampipe.RemoveFlat(s.source, s.tapi, "A", "TA")}
		_, err = s.source.HandlersBind(h)
	case "bindmany":
		_, err = ampipe.BindMany(s.source, s.tapi, am.S{"A", "B", "C"}, am.S{"TA", "TB", "TC"})
		for _, n := range []string{"A", "B", "C"} {
			s.fwd[n+"State"], s.fwd[n+"End"] = true, true
		}
	case "bindready":
		_, err = ampipe.BindReady(s.source, s.tapi, "SrcReady", "")
		s.fwd["ReadyState"], s.fwd["ReadyEnd"] = true, true
	case "bindconnected":
		_, err = ampipe.BindConnected(s.source, s.tapi, "XDisconnected", "XConnecting", "XConnected", "XDisconnecting")
		for _, pr := range s.pairs {
			s.fwd[pr.src+"State"], s.fwd[pr.src+"End"] = true, true
		}
	case "binderr":
		_, err = ampipe.BindErr(s.source, s.tapi, "ErrSrc")
		s.fwd["ExceptionState"] = true
	case "bindany":
		_, err = ampipe.BindAny(s.source, s.tapi)
	}
	if err != nil {
		return nil, err
	}
	return s, nil
}

// expectedForwards: the number of forwarding handler executions the source
// tracer saw (flat and BindAny handlers may decide not to forward: for those
// the proxy's own arrival count is the reference).
func (s *scen) expectedForwards() int {
	n := 0
	for _, ev := range s.str.EventsCopy() {
		if ev.Kind == "hend" && s.fwd[ev.Name] {
			n++
		}
	}
	return n
}

// quiesce waits until every forwarded call has been applied and both queues
// are idle. Ends on the counts, the cap only bounds the wait.
func (s *scen) quiesce(counted bool) (ok bool, why string) {
	stable := 0
	for i := 0; i < 3000; i++ {
		arrived, applied := s.tapi.counts()
		want := arrived
		if counted {
			want = s.expectedForwards()
		}
		idle := s.source.QueueLen() == 0 && s.target.QueueLen() == 0 && s.source.Transition() == nil && s.target.Transition() == nil
		if applied >= want && arrived >= want && idle {
			stable++
			if stable >= 5 {
				return true, ""
			}
		} else {
			stable = 0
		}
		time.Sleep(2 * time.Millisecond)
	}
	arrived, applied := s.tapi.counts()
	return false, fmt.Sprintf("forwarded calls: expected %d, arrived %d, applied %d", s.expectedForwards(), arrived, applied)
}

func (e eng) Run(c core.CaseDesc, tier string) *core.CaseResult {
	res := &core.CaseResult{Case: c}
	var p pipeP
	_ = json.Unmarshal(c.P, &p)
	switch c.Kind {
	case "pipe":
		runPipe(res, c, p)
	case "stall":
		runStall(res, c, p)
	case "errpipe":
		runErrPipe(res, c)
	case "optional":
		runOptional(res, c)
	case "mirror":
		runMirror(res, c)
	}
	return res
}

// runMirror: a mirror machine made by helpers.NewMirror follows its source.
// The flat mirror forwards synchronously (its skip tests see what the previous
// forward did), so it has to equal the source after every burst of quick
// toggles, whatever the scheduler does; the plain mirror forwards in forked
// goroutines, whose reordering is the known finding of the Bind family and is
// not judged here.
func runMirror(res *core.CaseResult, c core.CaseDesc) {
	r := gen.NewRand(c.Seed, 181)
	src := am.New(context.Background(), am.Schema{"A": {}, "B": {}}, &am.Opts{Id: "c18ms", DontLogId: true, DontLogStackTrace: true})
	defer src.Dispose()
	if r.IntN(2) == 0 {
		src.Add1("A", nil)
	}
	h := &struct {
		AState am.HandlerFinal
		AEnd   am.HandlerFinal
		BState am.HandlerFinal
		BEnd   am.HandlerFinal
	}{}
	mirror, err := amhelp.NewMirror("c18mm", true, src, h, am.S{"A", "B"})
	if err != nil {
		res.Inconclusive = "NewMirror: " + err.Error()
		return
	}
	defer mirror.Dispose()
	for round := 0; round < 40; round++ {
		n := 2 + r.IntN(6)
		var log []string
		for i := 0; i < n; i++ {
			st := []string{"A", "B"}[r.IntN(2)]
			if src.Is1(st) {
				src.Remove1(st, nil)
				log = append(log, "-"+st)
			} else {
				src.Add1(st, nil)
				log = append(log, "+"+st)
			}
		}
		// quiescence of both
		ok := false
		for i := 0; i < 3000 && !ok; i++ {
			ok = mirror.QueueLen() == 0 && mirror.Transition() == nil && src.QueueLen() == 0 && src.Transition() == nil &&
				mirror.Is1("A") == src.Is1("A") && mirror.Is1("B") == src.Is1("B")
			if !ok {
				time.Sleep(time.Millisecond)
			}
		}
		res.Evals++
		if !ok {
			res.Violate("C18/mirror/flat/diverged", fmt.Sprintf("round %d: after the toggles %v the source is %s, the flat mirror %s (3s after the source went quiet)", round, log, src.String(), mirror.String()), nil)
			return
		}
	}
	res.Key("mirror", "flat")
	res.Count("flat_mirror_bursts", 40)
}

// runOptional: BindConnected documents each of its four target states as
// optional. The bits of the case number say which ones are piped; the source
// walks through all four states. The source must not be disturbed by the
// states that are not piped and the target has to follow the ones that are.
func runOptional(res *core.CaseResult, c core.CaseDesc) {
	cst := ss.ConnectedStates
	srcStates := []string{cst.Disconnected, cst.Connecting, cst.Connected, cst.Disconnecting}
	// the connected schema without its Auto flag (an Auto state is retried
	// after every error, which would turn one fault into a storm)
	sc := am.Schema{}
	for n, st := range ss.ConnectedSchema {
		st.Auto = false
		sc[n] = st
	}
	sc["Start"] = am.State{}
	src := am.New(context.Background(), sc, &am.Opts{Id: "c18os", DontLogId: true, DontLogStackTrace: true})
	tgtNames := []string{"TDisconnected", "TConnecting", "TConnected", "TDisconnecting"}
	tsc := am.Schema{}
	for _, n := range tgtNames {
		tsc[n] = am.State{}
	}
	tgt := am.New(context.Background(), tsc, &am.Opts{Id: "c18ot", DontLogId: true, DontLogStackTrace: true})
	defer src.Dispose()
	defer tgt.Dispose()
	arg := make([]string, 4)
	for b := 0; b < 4; b++ {
		if c.Seed&(1<<b) != 0 {
			arg[b] = tgtNames[b]
		}
	}
	if _, err := ampipe.BindConnected(src, tgt, arg[0], arg[1], arg[2], arg[3]); err != nil {
		res.Inconclusive = "BindConnected: " + err.Error()
		return
	}
	ctx := map[string]any{"piped": arg}
	src.Add1("Start", nil)
	for step, st := range []string{cst.Disconnected, cst.Connecting, cst.Connected, cst.Disconnecting, cst.Disconnected} {
		done := make(chan am.Result, 1)
		go func() { done <- src.Add1(st, nil) }()
		res.Evals++
		select {
		case <-done:
		case <-time.After(10 * time.Second):
			res.Violate("C18/source-blocked/bindconnected-optional", fmt.Sprintf("Add1(%s) on the source did not return within 10s", st), map[string]any{"ctx": ctx, "dump": core.StackAll()})
			return
		}
		if src.IsErr() {
			res.Violate("C18/source-disturbed/bindconnected-optional", fmt.Sprintf("step %d: the source is in Exception after Add1(%s): %v (a state that is not piped changed)", step, st, src.Err()), ctx)
			return
		}
		// the target follows the piped ones
		ok := false
		for i := 0; i < 3000 && !ok; i++ {
			ok = true
			for b, sn := range srcStates {
				if arg[b] != "" && src.Is1(sn) != tgt.Is1(arg[b]) {
					ok = false
				}
			}
			if !ok {
				time.Sleep(time.Millisecond)
			}
		}
		if !ok {
			res.Violate("C18/optional/target-differs", fmt.Sprintf("step %d: source %s, target %s", step, src.String(), tgt.String()), ctx)
			return
		}
	}
	res.Key("optional", c.Seed)
}

// runErrPipe: a (flat or plain) pipe from the source's ErrNet into the
// target's ErrNet, which pipes forward together with Exception. The target
// may be in Exception already (another error is up) when the source's error
// activates; it has to follow the source anyway.
func runErrPipe(res *core.CaseResult, c core.CaseDesc) {
	flat := c.Seed%2 == 0
	preErr := (c.Seed/2)%2 == 1 // target already in Exception through ErrDisk
	twice := c.Seed/4 == 1       // the source's error comes and goes twice
	src := am.New(context.Background(), am.Schema{"ErrNet": {Require: am.S{am.StateException}}, "Idle": {}},
		&am.Opts{Id: "c18es", DontLogId: true, DontLogStackTrace: true})
	tgt := am.New(context.Background(), am.Schema{"ErrNet": {Require: am.S{am.StateException}}, "ErrDisk": {Require: am.S{am.StateException}}},
		&am.Opts{Id: "c18et", DontLogId: true, DontLogStackTrace: true})
	defer src.Dispose()
	defer tgt.Dispose()
	var addH, remH am.HandlerFinal
	if flat {
		addH, remH = ampipe.AddFlat(src, tgt, "ErrNet", ""), ampipe.RemoveFlat(src, tgt, "ErrNet", "")
	} else {
		addH, remH = ampipe.Add(src, tgt, "ErrNet", ""), ampipe.Remove(src, tgt, "ErrNet", "")
	}
	if _, err := src.HandlersBindMaps(nil, map[string]am.HandlerFinal{"ErrNetState": addH, "ErrNetEnd": remH}); err != nil {
		res.Inconclusive = "bind: " + err.Error()
		return
	}
	if preErr {
		tgt.Add(am.S{am.StateException, "ErrDisk"}, nil)
	}
	settle := func(want bool) bool {
		for i := 0; i < 3000; i++ {
			if tgt.Is1("ErrNet") == want && tgt.QueueLen() == 0 && tgt.Transition() == nil {
				return true
			}
			time.Sleep(time.Millisecond)
		}
		return false
	}
	rounds := 1
	if twice {
		rounds = 2
	}
	ctx := map[string]any{"flat": flat, "target_in_exception_before": preErr, "rounds": rounds}
	for k := 0; k < rounds; k++ {
		src.Add(am.S{am.StateException, "ErrNet"}, nil)
		res.Evals++
		if !src.Is1("ErrNet") {
			res.Inconclusive = "the source did not activate ErrNet"
			return
		}
		if !settle(true) {
			res.Violate("C18/errpipe/forward-missing/add", fmt.Sprintf("the source's ErrNet is active, the target's ErrNet stayed inactive (target %s)", tgt.String()), ctx)
			return
		}
		src.Remove1("ErrNet", nil)
		res.Evals++
		if !settle(false) {
			res.Violate("C18/errpipe/forward-missing/remove", fmt.Sprintf("the source's ErrNet was deactivated, the target's ErrNet stayed active (target %s)", tgt.String()), ctx)
			return
		}
		src.Remove1(am.StateException, nil)
	}
	res.Key("errpipe", flat, preErr, twice)
}

type opRec struct {
	op  gen.Op
	uid string
	res am.Result
}

func runPipe(res *core.CaseResult, c core.CaseDesc, p pipeP) {
	r := gen.NewRand(c.Seed, 18)
	s, err := build(p)
	if err != nil {
		res.Inconclusive = "setup: " + err.Error()
		return
	}
	defer s.close()
	tkind := "local"
	if p.Net {
		tkind = "net"
	}
	if p.Sched == "busy" {
		go s.target.Add1("Hold", nil)
		select {
		case <-s.parked:
		case <-time.After(10 * time.Second):
			res.Inconclusive = "the target never parked"
			return
		}
	}
	// the burst
	var ops []opRec
	n := p.N
	if p.Script != nil {
		n = len(p.Script)
	}
	for i := 0; i < n; i++ {
		st := s.toggle[r.IntN(len(s.toggle))]
		kind := []string{"add", "remove", "toggle"}[r.IntN(3)]
		if st == am.StateException {
			kind = []string{"adderr", "remove"}[r.IntN(2)]
		}
		op := gen.Op{Kind: kind, States: []string{st}}
		if p.Script != nil {
			op = p.Script[i]
		}
		t0 := time.Now()
		var rs am.Result
		var uid string
		opDone := make(chan struct{})
		go func() { rs, uid = rec.Apply(s.source, op); close(opDone) }()
		select {
		case <-opDone:
		case <-time.After(12 * time.Second):
			// (a blocked pipe handler can time out, raise Exception, and block
			// again on forwarding that: the mutation call never returns)
			s.abandon = true
			res.Violate("C18/source-blocked/"+p.Bind+"/"+tkind, fmt.Sprintf("source %s did not return within 12s (op %d of %d): the pipe handler blocks the source transition (ops=%s)",
				op, i, p.N, opsStr(ops)), nil)
			return
		}
		ops = append(ops, opRec{op, uid, rs})
		// piping never blocks the source transition: the source has no handlers
		// but the pipe's, so a mutation that takes seconds sat in a pipe handler
		if d := time.Since(t0); d > 3*time.Second {
			res.Violate("C18/source-blocked/"+p.Bind+"/"+tkind, fmt.Sprintf("source %s took %v (op %d of %d, result %s): the pipe handler blocked the source transition (ops=%s)",
				op, d.Round(time.Second), i, p.N, rec.ResStr(rs), opsStr(ops)), nil)
			return
		}
		// piping never cancels the source: a plain toggle on a relation-free
		// source is always executed
		if p.Bind != "bindconnected" && rs == am.Canceled {
			res.Violate("C18/source-canceled/"+p.Bind+"/"+tkind, fmt.Sprintf("source %s returned Canceled (op %d of %d; source err: %v; target err: %v)", op, i, p.N, s.source.Err(), s.target.Err())+" ops="+opsStr(ops)+" source txs="+txStr(s.str)+fmt.Sprintf(" active=%v", s.source.ActiveStates(nil)), nil)
			return
		}
		if p.Script != nil {
			// scripted: every forwarded call arrives before the next source
			// mutation, so the calls reach the (parked) target in source order
			for k := 0; k < 1000; k++ {
				if arrived, _ := s.tapi.counts(); arrived >= s.expectedForwards() {
					break
				}
				time.Sleep(2 * time.Millisecond)
			}
			if p.Sched == "midadd" && i == 0 {
				select {
				case <-s.parked:
				case <-time.After(10 * time.Second):
					res.Inconclusive = "the target never parked in its Enter handler"
					return
				}
			}
		}
		// ... nor breaks it: a pipe handler that blocks ends in a handler timeout
		if p.Bind != "binderr" && s.source.IsErr() {
			res.Violate("C18/source-error/"+p.Bind+"/"+tkind, fmt.Sprintf("the source machine got an error while piping (op %d of %d, %s): %v", i, p.N, op, s.source.Err()), nil)
			return
		}
		if r.IntN(4) == 0 {
			time.Sleep(time.Duration(r.IntN(300)) * time.Microsecond)
		}
	}
	if p.Sched == "midadd" {
		// the forwarded Remove has been called (and returned) before the
		// target's Add transition goes on
		for k := 0; k < 1000; k++ {
			if _, applied := s.tapi.counts(); applied >= s.expectedForwards()-1 {
				break
			}
			time.Sleep(2 * time.Millisecond)
		}
		close(s.release)
	}
	if p.Sched == "busy" {
		close(s.release)
	}
	counted := p.Bind != "flat" && p.Bind != "bindany"
	ok, why := s.quiesce(counted)
	ctxs := fmt.Sprintf("bind=%s sched=%s target=%s multi=%v ops=%s", p.Bind, p.Sched, tkind, p.Multi, opsStr(ops))
	if !ok {
		// a forwarded call that never arrives is a lost event, not slowness:
		// the wait is bounded by counts over 6 s of idleness
		res.Violate("C18/forward-missing/"+p.Bind+"/"+p.Sched, fmt.Sprintf("quiescence not reached: %s (%s)", why, ctxs), nil)
		return
	}
	// did the target apply the forwarded calls in the source's order?
	order := appliedOrder(s, ops)
	res.Count("forwarded_calls", int64(len(s.tapi.arrivals)))
	if order == "reordered" {
		res.Count("runs_with_reordered_application", 1)
	}
	if s.bindAny {
		res.Evals++
		want := gen.Sorted(s.source.ActiveStates(nil))
		got := gen.Sorted(without(s.target.ActiveStates(nil), "Hold"))
		if !slices.Equal(want, got) {
			res.Violate(fmt.Sprintf("C18/diverged/bindany/%s/%s", tkind, order), fmt.Sprintf("at quiescence the source has %v active, the target %v (%s)", want, got, ctxs), nil)
			return
		}
		res.Key(p.Bind, p.Sched, tkind, strings.Join(want, ","))
		return
	}
	for _, pr := range s.pairs {
		res.Evals++
		sa, ta := s.source.Is1(pr.src), s.target.Is1(pr.dst)
		bad := sa != ta
		if s.addOnly {
			bad = sa && !ta
		}
		if bad {
			if p.Bind == "flat" {
				// flat handlers pass no args: the schedule names the class
				order = "sched-" + p.Sched
			}
			res.Violate(fmt.Sprintf("C18/diverged/%s/%s/%s", p.Bind, tkind, order), fmt.Sprintf("at quiescence source %s active=%v but target %s active=%v (%s; target transitions %s)",
				pr.src, sa, pr.dst, ta, ctxs, txStr(s.tt)), nil)
			return
		}
		res.Key(p.Bind, p.Sched, tkind, pr.src, sa, order)
	}
}

func without(l []string, x string) []string {
	var r []string
	for _, s := range l {
		if s != x {
			r = append(r, s)
		}
	}
	return r
}

func opsStr(ops []opRec) string {
	var b []string
	for i, o := range ops {
		if i >= 14 {
			b = append(b, fmt.Sprintf("...(%d)", len(ops)))
			break
		}
		b = append(b, o.op.String())
	}
	return strings.Join(b, " ")
}

func txStr(t *rec.Tracer) string {
	var b []string
	txs := t.Snapshot()
	for i, tx := range txs {
		if i >= 14 {
			b = append(b, fmt.Sprintf("...(%d)", len(txs)))
			break
		}
		b = append(b, fmt.Sprintf("%s%v/%s", tx.Type, tx.Called, tx.Uid))
	}
	return strings.Join(b, " ")
}

// appliedOrder: "in-order" when the calls reached the target in the order of
// the source transitions that forwarded them, "reordered" otherwise,
// "unknown" when the calls carry no source event (BindAny's Set).
func appliedOrder(s *scen, ops []opRec) string {
	pos := map[string]int{}
	for i, tx := range s.str.Snapshot() {
		pos[tx.TxId] = i
	}
	var seq []int
	if s.rpc != nil {
		// a network target: the order in which the real target applied the
		// calls is read from its own tracer (non-flat pipes forward the
		// source mutation's args, which carry the uid)
		upos := map[string]int{}
		for i, tx := range s.str.Snapshot() {
			if _, ok := upos[tx.Uid]; !ok && tx.Uid != "" {
				upos[tx.Uid] = i
			}
		}
		for _, tx := range s.tt.Snapshot() {
			if i, ok := upos[tx.Uid]; ok && tx.Uid != "" {
				seq = append(seq, i)
			}
		}
	} else {
		s.tapi.callMx.Lock()
		calls := slices.Clone(s.tapi.calls)
		s.tapi.callMx.Unlock()
		for _, a := range calls {
			if i, ok := pos[a.srcTx]; ok && a.srcTx != "" {
				seq = append(seq, i)
			}
		}
	}
	if len(seq) == 0 {
		return "unknown"
	}
	if sort.IntsAreSorted(seq) {
		return "in-order"
	}
	return "reordered"
}

// runStall: a NetworkMachine target whose link is stalled must not block or
// break the source transition ("avoid network blocking").
func runStall(res *core.CaseResult, c core.CaseDesc, p pipeP) {
	s, err := build(p)
	if err != nil {
		res.Inconclusive = "setup: " + err.Error()
		return
	}
	defer s.close()
	s.rpc.Proxy.Stall(true)
	done := make(chan am.Result, 1)
	go func() { done <- s.source.Add1("A", am.A{"uid": rec.NextUid()}) }()
	res.Evals++
	select {
	case rs := <-done:
		if rs != am.Executed {
			res.Violate("C18/stall/source-result/"+p.Bind, fmt.Sprintf("source Add1(A) returned %s while the link to the network target was stalled", rec.ResStr(rs)), nil)
			return
		}
	case <-time.After(8 * time.Second):
		buf := core.StackAll()
		blocked, _ := core.StableBlock(buf)
		res.Violate("C18/stall/source-blocked/"+p.Bind, fmt.Sprintf("source Add1(A) did not return within 8s while the link to the network target was stalled (parked in %v)", blocked),
			map[string]any{"dump": buf})
		s.rpc.Proxy.Stall(false)
		return
	}
	if s.source.IsErr() {
		res.Violate("C18/stall/source-error/"+p.Bind, fmt.Sprintf("the source got an error while the link was stalled: %v", s.source.Err()), nil)
		return
	}
	s.rpc.Proxy.Stall(false)
	ok, why := s.quiesce(p.Bind != "flat")
	if !ok {
		res.Violate("C18/stall/forward-missing/"+p.Bind, "after the stall ended: "+why, nil)
		return
	}
	res.Evals++
	if !s.target.Is1("TA") {
		res.Violate("C18/stall/diverged/"+p.Bind, "after the stall ended the target state TA is inactive while the source's A is active", nil)
		return
	}
	res.Key("stall", p.Bind)
}
