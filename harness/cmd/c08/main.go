// C08: handler faults are contained - panic/timeout becomes Exception, the
// machine lives on.
package main

import (
	"errors"
	"fmt"
	"runtime"
	"slices"
	"strings"
	"sync"
	"sync/atomic"
	"time"

	am "github.com/pancsta/asyncmachine-go/pkg/machine"

	"verif/core"
	"verif/gen"
	"verif/rec"
	"verif/seq"
)

type eng struct{}

func (eng) Property() string { return "C08" }
func (eng) Level() string    { return "fault_enumeration" }
func (eng) Rule() string {
	return "cases: PRNG schema of 2..5 states (+ a probe state P without relations), 1-2 recording handler bindings over every handler " +
		"name incl. the Exception handlers, a pre-history and one target mutation. A fault-free run enumerates the handler calls of the " +
		"target mutation (and of the auto/exception transitions inside the same call) as positions (binding, handler name, occurrence); " +
		"then one run per position x fault kind {panic(error), panic(string), stall acknowledged after HandlerTimeout, stall beyond " +
		"HandlerDeadline}, single-shot; plus sequences: the same position faulting persistently (again inside the Exception transition) " +
		"and explicit faults in ExceptionEnter / ExceptionState. Every run checks: nothing escapes to the caller, the call returns, " +
		"IsErr/Err carry the message, timeouts cancel and are reported, negotiation faults move no tick, final-handler faults keep " +
		"completed finals and roll back the others with parity = activity, and a probe mutation with a handler still executes. " +
		"Evaluation = one faulted run; distinct non-trivial = distinct (case, position, fault kind)."
}
func (eng) Assumptions() []string {
	return []string{
		"the stalled handler is released by a logical hand-shake (ErrHandlerTimeout seen on ErrInternal) for the timeout path, after the call returned for the deadline path; no verdict depends on timing",
		"rollback is judged only for changed states that have a bound final handler; Multi re-entries are left free; the Exception state itself is excluded",
		"a run whose call never returns is classified from the goroutine dump by the driver (stable block = violation, else inconclusive)",
	}
}

func (eng) Cases(seed uint64, tier string) []core.CaseDesc {
	n := 400
	if tier == "thorough" {
		n = 12000
	}
	var cs []core.CaseDesc
	for i := 0; i < n; i++ {
		cs = append(cs, core.CaseDesc{ID: fmt.Sprintf("fault/%05d", i), Kind: "fault", Seed: seed*1000003 + uint64(i)})
	}
	for i := 0; i < 6; i++ {
		cs = append(cs, core.CaseDesc{ID: fmt.Sprintf("directed/%02d", i), Kind: "directed", Seed: uint64(i)})
	}
	return cs
}

func (eng) CaseTimeout(string) time.Duration { return 5 * time.Minute }

func (eng) Hang(c core.CaseDesc, dump string) *core.Violation {
	blocked, active := core.StableBlock(dump)
	if len(blocked) > 0 && len(active) == 0 {
		fn := blocked[0]
		if i := strings.LastIndex(fn, "."); i > 0 {
			fn = fn[i+1:]
		}
		noLoop := !strings.Contains(dump, "handlerLoop")
		sig := "C08/wedged/" + fn
		if noLoop {
			sig += "/no-handler-loop"
		}
		return &core.Violation{Sig: sig, What: fmt.Sprintf(
			"a mutation call never returned after a handler fault: parked in %v, handler loop goroutine present: %v", blocked, !noLoop),
			Witness: dump}
	}
	return nil
}

type pos struct {
	Binding int    `json:"b"`
	Name    string `json:"name"`
	Occ     int    `json:"occ"`
}

func (p pos) String() string { return fmt.Sprintf("%d:%s#%d", p.Binding, p.Name, p.Occ) }

type setup struct {
	spec   gen.SchemaSpec
	binds  [][]string
	pre    []gen.Op
	target gen.Op
}

type faultSpec struct {
	At         pos    `json:"at"`
	Kind       string `json:"kind"` // panic-err panic-str panic-val timeout deadline
	Persistent bool   `json:"persistent,omitempty"`
	// Also: a second fault inside the Exception handlers
	InException string `json:"in_exception,omitempty"` // ExceptionEnter | ExceptionState
}

const panicMsg = "verif-injected-panic-7f3a"

type panicStruct struct {
	Msg string
	N   int
}

type panicStringer struct{}

func (panicStringer) String() string { return "stringer:" + panicMsg }

type runOut struct {
	escaped   any
	result    am.Result
	hl        *rec.HLog
	tr        *rec.Tracer
	m         *am.Machine
	names     am.S
	errSeen   []error
	before    am.Time
	actBefore []string
	targetTxs []*rec.TxRec
	faultSeq  int // seq of the faulted handler call in the log
	fired     bool
	vetoP     *atomic.Bool
	spurious  atomic.Bool
}

// runOne executes pre + target with an optional fault.
func runOne(s setup, f *faultSpec) *runOut {
	out := &runOut{hl: &rec.HLog{}}
	// panics must never race a handler timeout (loaded machine): no timeout for
	// them; stalls use a timeout that fault-free handlers do not reach
	hto := 60 * time.Second
	if f != nil && (f.Kind == "timeout" || f.Kind == "deadline") {
		hto = 150 * time.Millisecond
	}
	mc, _ := seq.New(s.spec, seq.MachOpts{HandlerTimeout: hto})
	m := mc.M
	out.m, out.tr = m, mc.Tr
	out.names = m.StateNames()
	m.HandlerDeadline = 60 * time.Millisecond
	m.HandlerBackoff = 40 * time.Millisecond
	if f == nil || (f.Kind != "deadline") {
		// a generous deadline: the acknowledged-timeout path must not race it
		m.HandlerDeadline = 20 * time.Second
	}
	var armed atomic.Bool
	out.vetoP = &atomic.Bool{}
	occ := map[string]int{}
	var omx sync.Mutex
	release := make(chan struct{})
	var relOnce sync.Once
	doRelease := func() { relOnce.Do(func() { close(release) }) }
	out.faultSeq = -1
	shots := 0
	decide := func(b int) rec.Decide {
		return func(c *rec.HCall, e *am.Event) bool {
			if c.Name == "PEnter" && out.vetoP.Load() {
				return false
			}
			if !armed.Load() || f == nil {
				return true
			}
			omx.Lock()
			k := fmt.Sprintf("%d|%s", b, c.Name)
			n := occ[k]
			occ[k]++
			// a persistent fault fires up to 3 times (a handler of an Auto state
			// that panics for ever makes Exception -> auto -> panic loop without end:
			// an unbounded fault sequence is not a case of the quantifier)
			hit := b == f.At.Binding && c.Name == f.At.Name && (n == f.At.Occ || (f.Persistent && n >= f.At.Occ && shots < 3))
			if f.InException != "" && c.Name == f.InException && shots > 0 {
				hit = true
			}
			if hit {
				shots++
				if out.faultSeq < 0 {
					out.faultSeq = c.Seq
				}
				out.fired = true
			}
			omx.Unlock()
			if !hit {
				return true
			}
			switch f.Kind {
			case "panic-err":
				panic(errors.New(panicMsg))
			case "panic-str":
				panic(panicMsg)
			case "panic-val":
				// neither an error nor a string: a struct, a slice, a Stringer
				switch (len(f.At.Name) + f.At.Occ + f.At.Binding) % 3 {
				case 0:
					panic(panicStruct{Msg: panicMsg, N: 42})
				case 1:
					panic([]string{panicMsg})
				default:
					panic(panicStringer{})
				}
			case "timeout", "deadline":
				<-release
			}
			return true
		}
	}
	for b, names := range s.binds {
		_, _ = rec.BindMaps(m, out.hl, b, names, decide(b))
	}
	for _, op := range s.pre {
		rec.Apply(m, op)
	}
	// collect internal errors
	var emx sync.Mutex
	stopErr := make(chan struct{})
	go func() {
		for {
			select {
			case err, ok := <-m.ErrInternal():
				if !ok {
					return
				}
				emx.Lock()
				out.errSeen = append(out.errSeen, err)
				emx.Unlock()
				if f != nil && errors.Is(err, am.ErrHandlerTimeout) {
					if !strings.Contains(err.Error(), ": "+f.At.Name+" from ") {
						// another, fault-free handler hit the timeout (loaded
						// machine): the run says nothing about the fault
						out.spurious.Store(true)
					} else if f.Kind == "timeout" {
						// logical hand-shake: the machine has seen the timeout
						doRelease()
					}
				}
			case <-stopErr:
				return
			}
		}
	}()
	out.before = m.Time(nil)
	out.actBefore = m.ActiveStates(nil)
	from := mc.Tr.Len()
	armed.Store(true)
	func() {
		defer func() {
			if r := recover(); r != nil {
				out.escaped = r
			}
		}()
		out.result, _ = rec.Apply(m, s.target)
	}()
	if f != nil && f.Kind == "deadline" {
		// released only after the call returned
		doRelease()
	}
	doRelease()
	armed.Store(false)
	close(stopErr)
	emx.Lock()
	emx.Unlock()
	txs := mc.Tr.Snapshot()
	out.targetTxs = txs[from:]
	return out
}

func (o *runOut) sawTimeoutErr() bool {
	for _, e := range o.errSeen {
		if errors.Is(e, am.ErrHandlerTimeout) {
			return true
		}
	}
	return false
}

func genSetup(seed uint64) setup {
	r := gen.NewRand(seed, 8)
	spec := gen.RandSchema(r, gen.SchemaOpts{MinStates: 2, MaxStates: 5,
		PRequire: r.Float64() * 0.2, PAdd: r.Float64() * 0.3, PRemove: r.Float64() * 0.3,
		PAuto: r.Float64() * 0.25, PMulti: r.Float64() * 0.3})
	// probe state
	spec.Names = append(spec.Names, "P")
	spec.States["P"] = gen.StateSpec{}
	user := spec.Names[:len(spec.Names)-1]
	all := rec.AllHandlerNames(append(gen.Sorted(spec.Names), am.StateException))
	nb := 1 + r.IntN(2)
	s := setup{spec: spec}
	for b := 0; b < nb; b++ {
		var sub []string
		for _, n := range all {
			if b == 0 || r.IntN(2) == 0 {
				sub = append(sub, n)
			}
		}
		s.binds = append(s.binds, sub)
	}
	s.pre = gen.RandHistory(r, user, []string{"add", "remove", "set"}, r.IntN(4))
	s.target = gen.RandOp(r, user, []string{"add", "remove", "set", "add", "set"})
	return s
}

func judge(res *core.CaseResult, s setup, f faultSpec, base *runOut) {
	o := runOne(s, &f)
	res.Evals++
	res.Key(s.spec.String(), fmt.Sprint(s.pre), s.target.String(), f.At.String(), f.Kind, f.Persistent, f.InException)
	res.Count("runs_"+f.Kind, 1)
	m := o.m
	defer func() {
		// never DisposeForce in loops (sleeps); Dispose is asynchronous
		m.Dispose()
	}()
	ctx := func() any {
		var log []string
		for _, c := range o.hl.Snapshot() {
			log = append(log, fmt.Sprintf("%d:%s done=%v", c.Binding, c.Name, c.Done))
		}
		if len(log) > 40 {
			log = log[len(log)-40:]
		}
		return map[string]any{"schema": s.spec.String(), "bindings": len(s.binds), "pre": fmt.Sprint(s.pre),
			"target": s.target.String(), "fault": f, "result": rec.ResStr(o.result), "handler_log_tail": log,
			"txs": o.targetTxs, "active_after": m.ActiveStates(nil), "time_after": m.Time(nil)}
	}
	if !o.fired {
		res.Count("fault_not_reached", 1)
		return
	}
	if o.spurious.Load() {
		res.Count("runs_discarded_spurious_timeout", 1)
		return
	}
	kindNeg := rec.IsNegotiation(f.At.Name)
	phase := "final"
	if kindNeg {
		phase = "negotiation"
	}
	isPanic := strings.HasPrefix(f.Kind, "panic")
	inExc := strings.HasPrefix(f.At.Name, am.StateException) || f.InException != "" || f.Persistent
	cls := phase
	if inExc {
		cls = "inside-exception-transition"
	}
	// 1. nothing escapes
	if o.escaped != nil {
		res.Violate("C08/escaped/"+f.Kind+"/"+cls, fmt.Sprintf("a handler %s escaped to the caller of the mutation: %v", f.Kind, o.escaped), ctx())
		return
	}
	// the faulting transition
	var ftx *rec.TxRec
	calls := o.hl.Snapshot()
	for _, c := range calls {
		if c.Seq == o.faultSeq {
			for _, tx := range o.targetTxs {
				if tx.TxId == c.TxId {
					ftx = tx
				}
			}
		}
	}
	iExc := slices.Index([]string(o.names), am.StateException)
	// 3. panic -> Exception with the message
	if isPanic && !inExc {
		if !m.IsErr() {
			res.Violate("C08/no-exception-after-panic/"+cls, "IsErr() is false after a handler panic", ctx())
		} else if err := m.Err(); err == nil || !strings.Contains(err.Error(), panicMsg) {
			sig := "C08/message-lost/" + f.Kind
			res.Violate(sig, fmt.Sprintf("Err() = %v does not carry the panic message %q", err, panicMsg), ctx())
		}
	}
	// 4. timeout -> canceled + reported
	if !isPanic && !inExc {
		// (in an auto mutation a rejected Auto state is dropped individually:
		// the transition may stay accepted, but nothing of it may be applied
		// through the timed-out handler - covered by the tick check below)
		if ftx != nil && ftx.Accepted && kindNeg && !ftx.IsAuto {
			res.Violate("C08/timeout-not-canceled/"+cls, "a negotiation handler overran its timeout but the transition was accepted", ctx())
		}
		if !o.sawTimeoutErr() && !m.IsErr() {
			res.Violate("C08/timeout-not-reported/"+f.Kind, "a handler overran its timeout and no error was reported (ErrInternal / Exception)", ctx())
		}
	}
	// 5./6. state after the fault, judged on the faulting transition's own before/after
	if ftx != nil && !inExc {
		if kindNeg && !ftx.IsAuto {
			for i := range ftx.Before {
				if i != iExc && i < len(ftx.After) && ftx.Before[i] != ftx.After[i] {
					res.Violate("C08/negotiation-fault-changed-ticks/"+f.Kind, fmt.Sprintf(
						"a fault in negotiation handler %s changed the tick of %s %d -> %d", f.At.Name, o.names[i],
						ftx.Before[i], ftx.After[i]), ctx())
					break
				}
			}
		} else {
			judgeRollback(res, s, f, o, ftx, calls, ctx)
		}
	}
	// parity = activity always
	t := m.Time(nil)
	act := m.ActiveStates(nil)
	if !rec.SameSet(rec.ActiveFromTime(o.names, t), act) {
		res.Violate("C08/parity-vs-activity/"+cls, fmt.Sprintf("after the fault odd ticks %v but active %v",
			rec.ActiveFromTime(o.names, t), act), ctx())
	}
	// 7. the machine lives on: a probe mutation with a handler executes
	if f.Kind == "deadline" {
		// wait out the backoff (logical condition, not a verdict)
		for i := 0; i < 400 && m.Backoff(); i++ {
			time.Sleep(5 * time.Millisecond)
		}
	}
	// the probes are fault-free: on a loaded machine they must not race the
	// short timeout and deadline the fault needed (a call stolen by an abandoned
	// handler loop still ends in a timeout, well inside the watchdog below)
	m.HandlerTimeout = 5 * time.Second
	m.HandlerDeadline = 5 * time.Second
	probeDone := make(chan am.Result, 1)
	var veto2 am.Result
	before := o.hl.Len()
	go func() {
		m.Remove1(am.StateException, nil)
		pr := m.Add1("P", am.A{"probe": 1})
		// second probe: a negotiation veto must still be honoured (a stale
		// result left behind by an abandoned handler loop would override it)
		m.Remove1("P", nil)
		o.vetoP.Store(true)
		veto2 = m.Add1("P", am.A{"probe": 2})
		o.vetoP.Store(false)
		probeDone <- pr
	}()
	select {
	case pr := <-probeDone:
		if veto2 != am.Canceled || m.Is1("P") {
			res.Violate("C08/probe-veto-ignored/"+f.Kind+"/"+cls, fmt.Sprintf(
				"after the fault a vetoing PEnter was ignored: Add1(P) returned %s, P active=%v", rec.ResStr(veto2), m.Is1("P")), ctx())
		}
		m.Remove1("P", nil)
		// the probes are fault-free: they must not raise a new Exception (an
		// abandoned handler loop stealing calls shows up as handler timeouts)
		if m.IsErr() {
			res.Violate("C08/probe-raised-exception/"+f.Kind+"/"+cls, fmt.Sprintf(
				"fault-free probe mutations after the fault left the machine in Exception again: %v", m.Err()), ctx())
		}
		ran := false
		for _, c := range o.hl.Snapshot()[before:] {
			if c.Name == "PState" {
				ran = true
			}
		}
		if pr != am.Executed || !ran {
			res.Violate("C08/probe-failed/"+f.Kind+"/"+cls, fmt.Sprintf(
				"after the fault Add1(P) returned %s, PState ran=%v", rec.ResStr(pr), ran), ctx())
		}
	case <-time.After(20 * time.Second):
		buf := make([]byte, 4<<20)
		n := runtime.Stack(buf, true)
		dump := string(buf[:n])
		blocked, active := core.StableBlock(dump)
		noLoop := !strings.Contains(dump, "handlerLoop")
		if len(blocked) > 0 && (len(active) == 0 || noLoop) {
			sig := "C08/wedged/" + f.Kind + "/" + cls
			if noLoop {
				sig += "/no-handler-loop"
			}
			res.Violate(sig, fmt.Sprintf("after the fault the next mutation never returned: parked in %v, handler loop present: %v",
				blocked, !noLoop), map[string]any{"ctx": ctx(), "dump": dump})
		} else {
			res.Inconclusive = "probe mutation did not return within the watchdog"
		}
	}
}

// judgeRollback: completed finals kept, uncompleted rolled back (states with a
// bound final handler only).
func judgeRollback(res *core.CaseResult, s setup, f faultSpec, o *runOut, ftx *rec.TxRec, calls []rec.HCall, ctx func() any) {
	// a state's final handlers count as completed when every binding that has
	// the handler completed it in this transition; the faulted call itself
	// never counts (a stalled handler finishes later, after its release)
	doneIn := map[string]map[int]bool{}
	for _, c := range calls {
		if c.TxId != ftx.TxId {
			continue
		}
		if k := c.Kind(); k == "state" || k == "end" {
			if doneIn[c.Name] == nil {
				doneIn[c.Name] = map[int]bool{}
			}
			doneIn[c.Name][c.Binding] = c.Done && c.Seq != o.faultSeq
		}
	}
	completed := map[string]bool{}
	for hn := range doneIn {
		all := true
		for b, names := range s.binds {
			if slices.Contains(names, hn) && !doneIn[hn][b] {
				all = false
			}
		}
		completed[hn] = all
	}
	schema := o.m.Schema()
	// the active set right after the faulting transition and its recovery:
	// the time-before of the next transition (the Exception one), or the
	// machine time at return (TimeAfter of a faulted transition is not
	// refreshed after the rollback)
	afterT := o.m.Time(nil)
	for i, tx := range o.targetTxs {
		if tx.TxId == ftx.TxId && i+1 < len(o.targetTxs) {
			afterT = o.targetTxs[i+1].Before
		}
	}
	after := rec.ActiveFromTime(o.names, afterT)
	for i, n := range o.names {
		if n == am.StateException || i >= len(ftx.Before) {
			continue
		}
		wasActive := ftx.Before[i]%2 == 1
		enters := rec.Has(ftx.Enters, n)
		exits := rec.Has(ftx.Exits, n)
		if !enters && !exits {
			continue
		}
		if enters && wasActive {
			continue // Multi re-entry: left free
		}
		hn := n + "State"
		if exits {
			hn = n + "End"
		}
		bound := false
		for _, names := range s.binds {
			if slices.Contains(names, hn) {
				bound = true
			}
		}
		if !bound {
			continue
		}
		isActive := rec.Has(after, n)
		wantActive := wasActive
		why := "its final handler " + hn + " had not completed: rolled back"
		if completed[hn] {
			wantActive = !wasActive
			why = "its final handler " + hn + " had completed: kept"
		}
		if isActive != wantActive {
			k := "not-rolled-back"
			if completed[hn] {
				k = "completed-final-undone"
			}
			fk := "State"
			if strings.HasSuffix(f.At.Name, "End") {
				fk = "End"
			} else if f.At.Name == "AnyState" {
				fk = "AnyState"
			}
			_ = schema
			res.Violate("C08/rollback/"+k+"/fault-in-"+fk+"-handler", fmt.Sprintf(
				"after a fault in %s state %s is active=%v, expected %v (%s)", f.At.Name, n, isActive, wantActive, why), ctx())
			return
		}
	}
}

func (eng) Run(c core.CaseDesc, tier string) *core.CaseResult {
	res := &core.CaseResult{Case: c}
	if c.Kind == "directed" {
		runDirected(res, c)
		return res
	}
	s := genSetup(c.Seed)
	base := runOne(s, nil)
	var ps []pos
	occ := map[string]int{}
	txIds := map[string]bool{}
	for _, tx := range base.targetTxs {
		txIds[tx.TxId] = true
	}
	for _, hc := range base.hl.Snapshot() {
		if !txIds[hc.TxId] {
			continue
		}
		k := fmt.Sprintf("%d|%s", hc.Binding, hc.Name)
		ps = append(ps, pos{hc.Binding, hc.Name, occ[k]})
		occ[k]++
	}
	base.m.Dispose()
	r := gen.NewRand(c.Seed, 88)
	for _, p := range ps {
		for _, k := range []string{"panic-err", "panic-str", "timeout"} {
			judge(res, s, faultSpec{At: p, Kind: k}, base)
		}
		if r.IntN(3) == 0 {
			judge(res, s, faultSpec{At: p, Kind: "panic-val"}, base)
		}
		// the expensive kinds are sampled
		if r.IntN(6) == 0 {
			judge(res, s, faultSpec{At: p, Kind: "deadline"}, base)
		}
		if r.IntN(4) == 0 {
			judge(res, s, faultSpec{At: p, Kind: "panic-err", Persistent: true}, base)
		}
		if r.IntN(4) == 0 {
			judge(res, s, faultSpec{At: p, Kind: "panic-err", InException: []string{"ExceptionEnter", "ExceptionState"}[r.IntN(2)]}, base)
		}
	}
	res.Count("positions", int64(len(ps)))
	if strings.HasSuffix(c.ID, "/00000") {
		res.Sample = map[string]any{"schema": s.spec.String(), "pre": fmt.Sprint(s.pre), "target": s.target.String(),
			"positions": fmt.Sprint(ps)}
	}
	return res
}

func main() { core.Main(eng{}) }
