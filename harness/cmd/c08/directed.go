package main

import (
	am "github.com/pancsta/asyncmachine-go/pkg/machine"

	"verif/core"
	"verif/gen"
	"verif/rec"
)

// runDirected replays the witnesses of the defects this check found (both
// repaired by fix: commits; a regression shows up under the same signatures).
func runDirected(res *core.CaseResult, c core.CaseDesc) {
	spec := gen.SchemaSpec{Names: []string{"A", "B", "C", "P"}, States: map[string]gen.StateSpec{
		"A": {}, "B": {}, "C": {}, "P": {}}}
	all := rec.AllHandlerNames([]string{"A", "B", "C", "P", am.StateException})
	s := setup{spec: spec, binds: [][]string{all}}
	switch c.Seed {
	case 0: // fault in an End handler: the deactivation is rolled back
		s.pre = []gen.Op{{Kind: "set", States: []string{"A", "C"}}}
		s.target = gen.Op{Kind: "remove", States: []string{"A"}}
		judge(res, s, faultSpec{At: pos{0, "AEnd", 0}, Kind: "panic-err"}, nil)
	case 1: // End fault with later Enters: both undone
		s.pre = []gen.Op{{Kind: "set", States: []string{"A"}}}
		s.target = gen.Op{Kind: "set", States: []string{"B", "C"}}
		judge(res, s, faultSpec{At: pos{0, "AEnd", 0}, Kind: "panic-str"}, nil)
	case 2: // panic again inside the Exception transition: the machine must live on
		s.target = gen.Op{Kind: "add", States: []string{"A"}}
		judge(res, s, faultSpec{At: pos{0, "AEnter", 0}, Kind: "panic-err", InException: "ExceptionState"}, nil)
	case 3:
		s.target = gen.Op{Kind: "add", States: []string{"A"}}
		judge(res, s, faultSpec{At: pos{0, "AnyEnter", 0}, Kind: "panic-err", Persistent: true}, nil)
	case 4: // a final handler stalls beyond the deadline and returns later
		s.target = gen.Op{Kind: "add", States: []string{"A"}}
		judge(res, s, faultSpec{At: pos{0, "AState", 0}, Kind: "deadline"}, nil)
	case 5: // a negotiation handler stalls beyond the deadline and returns later
		s.target = gen.Op{Kind: "add", States: []string{"A"}}
		judge(res, s, faultSpec{At: pos{0, "AEnter", 0}, Kind: "deadline"}, nil)
	}
}
