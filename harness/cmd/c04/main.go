// C04: one queue, one transition at a time, in order, none lost or stranded.
package main

import (
	"context"
	"fmt"
	"math/rand/v2"
	"runtime"
	"sort"
	"strings"
	"sync"
	"sync/atomic"
	"time"

	"github.com/anishathalye/porcupine"
	am "github.com/pancsta/asyncmachine-go/pkg/machine"

	"verif/core"
	"verif/gen"
	"verif/rec"
	"verif/seq"
)

type eng struct{}

func (eng) Property() string { return "C04" }
func (eng) Level() string    { return "exploration" }
func (eng) Rule() string {
	return "cases: (stress) N in {2,3,4,8,16} goroutines x 5-50 ops from {Add1,Remove1,Set,Eval,CanAdd1,Toggle} with unique uid args on " +
		"generated schemas, handlers that enqueue follow-ups and veto, PRNG yields at the queue schedule points (qm.appended, " +
		"pq.cas-lost, pq.loop-exit, pq.released); (script) exact interleavings: the drainer is gated at pq.loop-exit (or pq.released) " +
		"while a second goroutine appends and loses the CAS inside the release window (pq.cas-lost hit observed), then released; " +
		"(lin) relation-free schemas, client-boundary history of Add1/Remove1/Tick per state checked with porcupine against a " +
		"per-state tick model; (dedup) 2-8 arg-less Add1/Remove1/CanAdd1/CanRemove1 issued from a handler that holds the queue or from " +
		"another goroutine meanwhile, activity after the drain compared with the sequential application of the real mutations; (dedupwin) " +
		"the last issued arg-less mutation parked at dq.found while the queue processes its twin and the counter mutation; (rmstale) 400 rounds of " +
		"a Remove issued by another goroutine right after the Add queued by an End handler has left the queue. Monitors: handler/eval single occupancy, tracer nesting, queue-tick order of appended mutations, " +
		"exactly-once conservation of uids, stranded queue at quiescence (stable), WhenQueue(tick) closed for every processed tick " +
		"(subscribed before and after processing). Evaluation = one issued op; distinct non-trivial = distinct (case, op) that was " +
		"queued behind a running transition or raced the release window."
}
func (eng) Assumptions() []string {
	return []string{"no handler timeouts (generous HandlerTimeout), no dispose, no deadline flush: the statement's exclusions",
		"a stranded queue is judged only at a stable point: all issuers returned, gates released, Transition()==nil",
		"Remove may return Executed without any transition (documented early return)",
		"porcupine timeout is inconclusive"}
}

func (eng) Cases(seed uint64, tier string) []core.CaseDesc {
	ns, nsc, nl := 300, 40, 100
	if tier == "thorough" {
		ns, nsc, nl = 400000, 12000, 60000
	}
	var cs []core.CaseDesc
	for i := 0; i < 6; i++ {
		cs = append(cs, core.CaseDesc{ID: fmt.Sprintf("wq/%02d", i), Kind: "wq", Seed: seed*1000003 + uint64(i)})
	}
	for i := 0; i < ns; i++ {
		cs = append(cs, core.CaseDesc{ID: fmt.Sprintf("stress/%05d", i), Kind: "stress", Seed: seed*1000003 + uint64(i)})
	}
	for i := 0; i < nsc; i++ {
		cs = append(cs, core.CaseDesc{ID: fmt.Sprintf("script/%05d", i), Kind: "script", Seed: seed*2000003 + uint64(i)})
	}
	for i := 0; i < nl; i++ {
		cs = append(cs, core.CaseDesc{ID: fmt.Sprintf("lin/%05d", i), Kind: "lin", Seed: seed*3000003 + uint64(i)})
	}
	for i := 0; i < 4; i++ {
		cs = append(cs, core.CaseDesc{ID: fmt.Sprintf("dedupwin/%02d", i), Kind: "dedupwin", Seed: uint64(i)})
	}
	for i := 0; i < 2; i++ {
		cs = append(cs, core.CaseDesc{ID: fmt.Sprintf("evalpanic/%02d", i), Kind: "evalpanic", Seed: uint64(i)})
	}
	nrs := 6
	if tier == "thorough" {
		nrs = 200
	}
	for i := 0; i < nrs; i++ {
		cs = append(cs, core.CaseDesc{ID: fmt.Sprintf("rmstale/%03d", i), Kind: "rmstale", Seed: seed*6000011 + uint64(i)})
	}
	nd := 200
	if tier == "thorough" {
		nd = 40000
	}
	for i := 0; i < nd; i++ {
		cs = append(cs, core.CaseDesc{ID: fmt.Sprintf("dedup/%05d", i), Kind: "dedup", Seed: seed*4000003 + uint64(i)})
	}
	return cs
}

func (eng) CaseTimeout(string) time.Duration { return 25 * time.Second }

// Hang classifies a watchdog dump: calls parked on locks/channels inside the
// machine with nothing in the machine making progress is a stable block.
func (eng) Hang(c core.CaseDesc, dump string) *core.Violation {
	blocked, active := core.StableBlock(dump)
	if len(blocked) > 0 && len(active) == 0 {
		fn := blocked[0]
		if i := strings.LastIndex(fn, "."); i > 0 {
			fn = fn[i+1:]
		}
		return &core.Violation{Sig: "C04/wedged/" + fn, What: fmt.Sprintf(
			"the workload never finished: goroutines are parked inside the machine (%v) and nothing in it is running",
			blocked), Witness: dump}
	}
	return nil
}

// issued is one client-boundary record.
type issued struct {
	G      int
	Op     string
	Uid    string
	Res    am.Result
	Call   int64
	Ret    int64
	WQ     <-chan struct{} // WhenQueue subscribed right after the call returned a tick
	InHand bool
	// EarlyWQ: WhenQueue(tick) was already closed although the own transition had not ended
	EarlyWQ bool
	Dbg     string
}

var clock atomic.Int64

func now() int64 { return clock.Add(1) }

// quiesce waits until the machine is idle in a stable way or reports what is
// stuck. Returns "" when idle with an empty queue.
func quiesce(m *am.Machine) string {
	deadline := time.Now().Add(15 * time.Second)
	for time.Now().Before(deadline) {
		if m.Transition() == nil && m.QueueLen() == 0 {
			// confirm
			runtime.Gosched()
			if m.Transition() == nil && m.QueueLen() == 0 {
				return ""
			}
		}
		if m.Transition() == nil && m.QueueLen() > 0 {
			// nobody is draining: is it stable?
			stable := true
			for i := 0; i < 200; i++ {
				time.Sleep(time.Millisecond)
				if m.Transition() != nil || m.QueueLen() == 0 {
					stable = false
					break
				}
			}
			if stable {
				return fmt.Sprintf("stranded: idle machine (no transition running, every issuer returned) with %d queued mutations",
					m.QueueLen())
			}
			continue
		}
		time.Sleep(200 * time.Microsecond)
	}
	return "timeout"
}

type world struct {
	mc     *seq.Mach
	mx     sync.Mutex
	iss    []*issued
	evalIn atomic.Int32
	evalOv atomic.Int32
	evals  atomic.Int32
}

func (w *world) record(i *issued) {
	w.mx.Lock()
	w.iss = append(w.iss, i)
	w.mx.Unlock()
}

// issue performs one op on the machine and records it at the boundary.
func (w *world) issue(g int, m *am.Machine, op gen.Op, inHandler bool) *issued {
	is := &issued{G: g, Op: op.String(), InHand: inHandler}
	is.Call = now()
	if op.Kind == "eval" {
		ok := m.Eval("verif", func() {
			if w.evalIn.Add(1) > 1 || w.mc.HLog.InHandler() {
				w.evalOv.Add(1)
			}
			runtime.Gosched()
			w.evalIn.Add(-1)
			w.evals.Add(1)
		}, nil)
		is.Ret = now()
		if ok {
			is.Res = am.Executed
		} else {
			is.Res = am.Canceled
		}
		is.Op = "eval"
		w.record(is)
		return is
	}
	r, uid := rec.Apply(m, op)
	is.Ret = now()
	is.Res, is.Uid = r, uid
	if op.Kind == "canadd" || op.Kind == "canremove" {
		// checks are prepended: no queue tick (Queued is the virtual value)
		is.Uid = ""
		w.record(is)
		return is
	}
	if r > am.Queued {
		is.WQ = m.WhenQueue(r)
		if closed(is.WQ) {
			// closed at subscription: the own transition must have ended
			// (checked after the observation, so a miss is definite)
			// early = the own transition is still in flight and not completed,
			// or has not even started
			if t := m.Transition(); t != nil && t.Mutation != nil && t.Mutation.Args["uid"] == uid {
				if !t.IsCompleted.Load() {
					is.EarlyWQ = true
				}
			} else if !w.mc.Tr.Started(uid) {
				is.EarlyWQ = true
			}
			if is.EarlyWQ {
				cur := "none"
				if t := m.Transition(); t != nil {
					cur = fmt.Sprintf("%s%v qtick=%d completed=%v", t.Mutation.Type, t.CalledStates(), t.Mutation.QueueTick, t.IsCompleted.Load())
				}
				is.Dbg = fmt.Sprintf("tick=%d machine.QueueTick=%d current=%s inhandler=%v", uint64(r), m.QueueTick(), cur, inHandler)
			}
		}
	}
	w.record(is)
	return is
}

func closed(ch <-chan struct{}) bool {
	select {
	case <-ch:
		return true
	default:
		return false
	}
}

// judge runs the post-run monitors.
func (w *world) judge(res *core.CaseResult, ctx map[string]any, quiet string) {
	mc := w.mc
	m := mc.M
	if quiet == "timeout" {
		res.Inconclusive = "machine did not become idle within the watchdog"
		return
	}
	if quiet != "" {
		sig := "C04/stranded"
		hits := am.VerifHookHits()
		if hits["pq.cas-lost"] > 0 {
			sig = "C04/stranded/cas-lost-in-release-window"
		}
		res.Violate(sig, quiet, ctx)
	}
	if mc.HLog.Overlaps.Load() > 0 {
		res.Violate("C04/handler-overlap", "two handlers of one machine ran concurrently", ctx)
	}
	if w.evalOv.Load() > 0 {
		res.Violate("C04/eval-overlap", "an eval body overlapped another eval body or a handler", ctx)
	}
	if mc.Tr.Overlaps.Load() > 0 {
		res.Violate("C04/transition-overlap", "tracer callbacks of two transitions ran concurrently", ctx)
	}
	// nesting
	open := ""
	for _, ev := range mc.Tr.EventsCopy() {
		switch ev.Kind {
		case "init":
			if open != "" {
				res.Violate("C04/nested-transition", "a transition started inside another", ctx)
			}
			open = ev.TxId
		case "end":
			open = ""
		}
	}
	txs := mc.Tr.Snapshot()
	// queue-tick order of appended mutations
	var lastTick uint64
	seen := map[string]int{}
	processedTick := map[uint64]bool{}
	for _, tx := range txs {
		if tx.Uid != "" && !tx.IsAuto {
			seen[tx.Uid]++
		}
		if tx.QueueTick > 0 {
			processedTick[tx.QueueTick] = true
			if lastTick != 0 && tx.QueueTick != lastTick+1 {
				res.Violate("C04/queue-tick-order", fmt.Sprintf(
					"appended mutations processed with queue ticks %d then %d (must be +1)", lastTick, tx.QueueTick),
					map[string]any{"ctx": ctx, "tx": tx})
			}
			lastTick = tx.QueueTick
		}
	}
	// conservation
	stranded := quiet != ""
	for _, is := range w.iss {
		res.Evals++
		if is.Uid == "" {
			continue
		}
		n := seen[is.Uid]
		switch {
		case is.Res == am.Canceled:
			// canceled: either at entry (no transition) or processed and canceled
			if n > 1 {
				res.Violate("C04/processed-twice", fmt.Sprintf("%s (uid %s) was processed %d times", is.Op, is.Uid, n), ctx)
			}
		case is.Res == am.Executed:
			if n > 1 {
				res.Violate("C04/processed-twice", fmt.Sprintf("%s (uid %s) was processed %d times", is.Op, is.Uid, n), ctx)
			}
			if n == 0 && !strings.HasPrefix(is.Op, "remove") && !strings.HasPrefix(is.Op, "toggle") {
				res.Violate("C04/executed-never-processed", fmt.Sprintf("%s returned Executed but was never processed", is.Op), ctx)
			}
		default: // queue tick
			if is.EarlyWQ {
				res.Violate("C04/whenqueue-early/closed-before-own-transition-ended", fmt.Sprintf(
					"WhenQueue(%d) returned an already closed channel although the mutation %s with that tick had not been processed yet",
					uint64(is.Res), is.Op)+" ["+is.Dbg+"]", ctx)
			}
			if n > 1 {
				res.Violate("C04/processed-twice", fmt.Sprintf("%s (uid %s) was processed %d times", is.Op, is.Uid, n), ctx)
			}
			if n == 0 && !stranded {
				res.Violate("C04/lost", fmt.Sprintf("%s returned queue tick %d but was never processed", is.Op, uint64(is.Res)), ctx)
			}
			if n == 1 {
				res.Key(ctx["seed"], is.Uid)
				// WhenQueue subscribed before/while processing
				if is.WQ != nil && !closed(is.WQ) {
					tx := mc.Tr.FindUid(is.Uid)
					sig := "C04/whenqueue-open"
					if tx != nil && !tx.Accepted {
						sig += "/canceled-queued"
					} else {
						sig += "/accepted-queued"
					}
					res.Violate(sig, fmt.Sprintf(
						"WhenQueue(%d) subscribed when %s returned is still open at quiescence although the mutation was processed",
						uint64(is.Res), is.Op), map[string]any{"ctx": ctx, "tx": tx})
				}
				// and subscribed after
				if !closed(m.WhenQueue(is.Res)) {
					res.Violate("C04/whenqueue-open/late-subscription", fmt.Sprintf(
						"WhenQueue(%d) subscribed after processing is open", uint64(is.Res)), ctx)
				}
			}
		}
	}
	res.Count("transitions", int64(len(txs)))
	res.Count("evals", int64(w.evals.Load()))
	res.Count("handler_calls", int64(mc.HLog.Len()))
	for k, v := range am.VerifHookHits() {
		res.Count("hook_"+k, int64(v))
	}
}

func yields(r *rand.Rand, pts []string) {
	am.VerifHookClear()
	for _, p := range pts {
		k := r.IntN(4)
		if k == 0 {
			am.VerifHookCount(p)
			continue
		}
		am.VerifHookSet(p, func() {
			for i := 0; i < k; i++ {
				runtime.Gosched()
			}
		})
	}
}

var qPoints = []string{"qm.appended", "pq.cas-lost", "pq.loop-exit", "pq.released", "tx.applied", "pq.before-subs"}

func runStress(res *core.CaseResult, c core.CaseDesc) {
	r := gen.NewRand(c.Seed, 4)
	spec := gen.RandSchema(r, gen.SchemaOpts{MinStates: 2, MaxStates: 5,
		PRequire: r.Float64() * 0.15, PAdd: r.Float64() * 0.2, PRemove: r.Float64() * 0.2,
		PAuto: r.Float64() * 0.2, PMulti: r.Float64() * 0.4})
	mc, _ := seq.New(spec, seq.MachOpts{})
	mc.Tr.NoSample = true
	m := mc.M
	w := &world{mc: mc}
	nG := []int{2, 3, 4, 8, 16}[r.IntN(5)]
	// handlers: veto + follow-ups with a budget
	var hmx sync.Mutex
	hr := rand.New(rand.NewPCG(c.Seed, 7))
	budget := 10 + r.IntN(40)
	pv, pm := r.Float64()*0.1, r.Float64()*0.3
	if r.IntN(4) > 0 {
		names := rec.AllHandlerNames(gen.Sorted(spec.Names))
		var sub []string
		for _, n := range names {
			if r.IntN(3) == 0 {
				sub = append(sub, n)
			}
		}
		_, _ = rec.BindMaps(m, mc.HLog, 0, sub, func(hc *rec.HCall, e *am.Event) bool {
			hmx.Lock()
			veto := hr.Float64() < pv
			mut := hr.Float64() < pm && budget > 0
			var op gen.Op
			if mut {
				budget--
				op = gen.RandOp(hr, spec.Names, []string{"add", "remove", "set"})
			}
			hmx.Unlock()
			if mut && !e.IsCheck {
				w.issue(-1, e.Machine(), op, true)
			}
			return !veto
		})
	}
	yields(r, qPoints)
	defer am.VerifHookClear()
	var wg sync.WaitGroup
	for g := 0; g < nG; g++ {
		n := 5 + r.IntN(46)
		ops := make([]gen.Op, n)
		for i := range ops {
			switch r.IntN(10) {
			case 0:
				ops[i] = gen.Op{Kind: "eval"}
			case 1:
				ops[i] = gen.Op{Kind: "canadd", States: []string{spec.Names[r.IntN(len(spec.Names))]}}
			case 2:
				ops[i] = gen.Op{Kind: "set", States: gen.RandSubset(r, spec.Names, false)}
			default:
				ops[i] = gen.Op{Kind: []string{"add", "remove", "toggle"}[r.IntN(3)], States: []string{spec.Names[r.IntN(len(spec.Names))]}}
			}
		}
		wg.Add(1)
		go func(g int, ops []gen.Op) {
			defer wg.Done()
			for _, op := range ops {
				w.issue(g, m, op, false)
			}
		}(g, ops)
	}
	wg.Wait()
	q := quiesce(m)
	ctx := map[string]any{"schema": spec.String(), "goroutines": nG, "seed": c.Seed}
	w.judge(res, ctx, q)
	if strings.HasSuffix(c.ID, "/00000") {
		res.Sample = map[string]any{"ctx": ctx, "ops_issued": len(w.iss), "transitions": mc.Tr.Len()}
	}
	if q == "" && mc.HLog.Len() > 0 {
		m.Dispose()
	}
}

// runScript drives the exact release-window interleaving.
func runScript(res *core.CaseResult, c core.CaseDesc) {
	r := gen.NewRand(c.Seed, 44)
	spec := gen.SchemaSpec{Names: []string{"A", "B", "C", "D"}, States: map[string]gen.StateSpec{
		"A": {Multi: true}, "B": {Multi: true}, "C": {}, "D": {}}}
	mc, _ := seq.New(spec, seq.MachOpts{})
	mc.Tr.NoSample = true
	m := mc.M
	w := &world{mc: mc}
	gatePoint := []string{"pq.loop-exit", "pq.released"}[r.IntN(2)]
	nLosers := 1 + r.IntN(3)
	withHandlers := r.IntN(2) == 0
	if withHandlers {
		_, _ = rec.BindMaps(m, mc.HLog, 0, rec.AllHandlerNames(spec.Names), nil)
	}
	am.VerifHookClear()
	defer am.VerifHookClear()
	gate := make(chan struct{})
	reached := make(chan struct{}, 8)
	var once sync.Once
	am.VerifHookSet(gatePoint, func() {
		first := false
		once.Do(func() { first = true })
		if first {
			reached <- struct{}{}
			select {
			case <-gate:
			case <-time.After(20 * time.Second):
			}
		}
	})
	am.VerifHookCount("pq.cas-lost")
	var wg sync.WaitGroup
	wg.Add(1)
	go func() {
		defer wg.Done()
		w.issue(0, m, gen.Op{Kind: "add", States: []string{"A"}}, false)
	}()
	select {
	case <-reached:
	case <-time.After(10 * time.Second):
		res.Inconclusive = "gate point not reached"
		close(gate)
		wg.Wait()
		return
	}
	// the drainer is parked in the window; losers append now
	var lwg sync.WaitGroup
	for i := 0; i < nLosers; i++ {
		lwg.Add(1)
		go func(i int) {
			defer lwg.Done()
			w.issue(1+i, m, gen.Op{Kind: []string{"add", "remove", "add"}[i%3], States: []string{[]string{"B", "A", "C"}[i%3]}}, false)
		}(i)
	}
	lwg.Wait()
	lost := am.VerifHookHits()["pq.cas-lost"]
	close(gate)
	wg.Wait()
	q := quiesce(m)
	ctx := map[string]any{"gate": gatePoint, "losers": nLosers, "cas_lost_hits": lost, "handlers": withHandlers, "seed": c.Seed}
	w.judge(res, ctx, q)
	if lost > 0 {
		res.Key("script", gatePoint, nLosers, withHandlers)
		res.Count("runs_with_cas_lost_in_window", 1)
	}
	if strings.HasSuffix(c.ID, "/00000") {
		res.Sample = ctx
	}
	if q == "" && withHandlers {
		m.Dispose()
	}
}

// runWqWindow: WhenQueue(tick) asked right after the waiters of that tick were
// served (the processing goroutine is parked at pq.after-subs) has to come
// back closed, or close by quiescence: the mutation has been processed.
func runWqWindow(res *core.CaseResult, c core.CaseDesc) {
	r := gen.NewRand(c.Seed, 45)
	veto := r.IntN(2) == 0
	m := am.New(context.Background(), am.Schema{"A": {}, "B": {}}, &am.Opts{Id: "c04wq", DontLogId: true, DontLogStackTrace: true})
	defer m.Dispose()
	tickCh := make(chan am.Result, 1)
	_, _ = m.HandlersBindMaps(map[string]am.HandlerNegotiation{
		"BEnter": func(e *am.Event) bool { return !veto },
	}, map[string]am.HandlerFinal{
		"AState": func(e *am.Event) { tickCh <- m.Add1("B", nil) },
	})
	am.VerifHookClear()
	defer am.VerifHookClear()
	gate := make(chan struct{})
	reached := make(chan struct{}, 4)
	var hits atomic.Int32
	am.VerifHookSet("pq.after-subs", func() {
		// 1st hit: A's own transition, 2nd: the queued B
		if hits.Add(1) == 2 {
			reached <- struct{}{}
			select {
			case <-gate:
			case <-time.After(20 * time.Second):
			}
		}
	})
	done := make(chan struct{})
	go func() { m.Add1("A", nil); close(done) }()
	var tick am.Result
	select {
	case tick = <-tickCh:
	case <-time.After(10 * time.Second):
		res.Inconclusive = "the handler did not issue its mutation"
		close(gate)
		return
	}
	select {
	case <-reached:
	case <-time.After(10 * time.Second):
		res.Inconclusive = "pq.after-subs not reached for the queued mutation"
		close(gate)
		return
	}
	res.Evals++
	ch := m.WhenQueue(tick)
	close(gate)
	<-done
	q := quiesce(m)
	if q != "" {
		res.Inconclusive = "no quiescence: " + q
		return
	}
	select {
	case <-ch:
	default:
		kind := "accepted-queued"
		if veto {
			kind = "canceled-queued"
		}
		res.Violate("C04/whenqueue-open/"+kind, fmt.Sprintf("WhenQueue(%d) asked after the waiters of that mutation had been served (queue tick %d, machine idle, B active=%v) never closed",
			uint64(tick), m.QueueTick(), m.Is1("B")), map[string]any{"veto": veto, "tick": uint64(tick)})
	}
	res.Key("wq-window", veto)
}

// ---- linearizability of the client boundary (relation-free schemas)

type linIn struct {
	State string
	Kind  string // add remove tick
}
type linOut struct {
	Tick uint64
	// Ok: the mutation was processed and accepted (ground truth from the
	// tracer, not the returned Result: a caller whose mutation is drained by
	// another goroutine may be told Canceled)
	Ok  bool
	Uid string
	// ToldCanceled: the call returned Canceled (if the mutation was processed
	// anyway, by another goroutine's drain, it may take effect after the return)
	ToldCanceled bool
}

func runLin(res *core.CaseResult, c core.CaseDesc) {
	r := gen.NewRand(c.Seed, 444)
	n := 1 + r.IntN(3)
	spec := gen.SchemaSpec{Names: append([]string(nil), gen.AllNames[:n]...), States: map[string]gen.StateSpec{}}
	multi := map[string]bool{}
	for _, s := range spec.Names {
		mu := r.IntN(2) == 0
		multi[s] = mu
		spec.States[s] = gen.StateSpec{Multi: mu}
	}
	mc, _ := seq.New(spec, seq.MachOpts{})
	mc.Tr.NoSample = true
	m := mc.M
	var ends sync.Map // uid -> chan struct{}
	waitEnd := func(uid string) chan struct{} {
		ch, _ := ends.LoadOrStore(uid, make(chan struct{}))
		return ch.(chan struct{})
	}
	mc.Tr.OnEnd = func(tx *am.Transition, r *rec.TxRec) {
		if r.Uid != "" && !r.IsAuto {
			close(waitEnd(r.Uid))
		}
	}
	yields(r, qPoints)
	defer am.VerifHookClear()
	nG := 2 + r.IntN(4)
	var mx sync.Mutex
	var ops []porcupine.Operation
	var wg sync.WaitGroup
	for g := 0; g < nG; g++ {
		k := 4 + r.IntN(10)
		type pl struct {
			st, kind string
		}
		plan := make([]pl, k)
		for i := range plan {
			plan[i] = pl{spec.Names[r.IntN(n)], []string{"add", "remove", "tick", "add"}[r.IntN(4)]}
		}
		wg.Add(1)
		go func(g int) {
			defer wg.Done()
			for _, p := range plan {
				call := now()
				var out linOut
				switch p.kind {
				case "tick":
					out = linOut{Tick: m.Tick(p.st), Ok: true}
				default:
					var rs am.Result
					uid := rec.NextUid()
					if p.kind == "add" {
						rs = m.Add1(p.st, am.A{"uid": uid})
					} else {
						rs = m.Remove1(p.st, am.A{"uid": uid})
					}
					if rs >= am.Queued {
						// wait until the tracer saw the end of the own transition
						// (WhenQueue is not used here: it is itself under test)
						select {
						case <-waitEnd(uid):
						case <-time.After(10 * time.Second):
							// stays open: keep the op pending till the end
							mx.Lock()
							ops = append(ops, porcupine.Operation{ClientId: g, Input: linIn{p.st, p.kind}, Call: call,
								Output: linOut{Uid: uid}, Return: 1 << 60})
							mx.Unlock()
							continue
						}
					}
					out = linOut{Uid: uid, ToldCanceled: rs == am.Canceled}
				}
				ret := now()
				mx.Lock()
				ops = append(ops, porcupine.Operation{ClientId: g, Input: linIn{p.st, p.kind}, Call: call, Output: out, Return: ret})
				mx.Unlock()
			}
		}(g)
	}
	wg.Wait()
	q := quiesce(m)
	if q != "" {
		w := &world{mc: mc}
		w.judge(res, map[string]any{"schema": spec.String(), "seed": c.Seed}, q)
	}
	// ground truth: which mutations were processed and accepted
	acc := map[string]bool{}
	for _, tx := range mc.Tr.Snapshot() {
		if tx.Uid != "" && tx.Accepted {
			acc[tx.Uid] = true
		}
	}
	toldCanceledButProcessed := 0
	for i := range ops {
		o := ops[i].Output.(linOut)
		if o.Uid != "" {
			o.Ok = acc[o.Uid]
			ops[i].Output = o
			if o.Ok && o.ToldCanceled {
				// keep the op open until the end of the history
				ops[i].Return = 1 << 60
				toldCanceledButProcessed++
			}
		}
	}
	model := porcupine.Model{
		Partition: func(h []porcupine.Operation) [][]porcupine.Operation {
			by := map[string][]porcupine.Operation{}
			for _, o := range h {
				s := o.Input.(linIn).State
				by[s] = append(by[s], o)
			}
			var ret [][]porcupine.Operation
			var ks []string
			for k := range by {
				ks = append(ks, k)
			}
			sort.Strings(ks)
			for _, k := range ks {
				ret = append(ret, by[k])
			}
			return ret
		},
		Init: func() any { return uint64(0) },
		Step: func(st, in, out any) (bool, any) {
			t := st.(uint64)
			i := in.(linIn)
			o := out.(linOut)
			switch i.Kind {
			case "tick":
				return o.Tick == t, t
			case "add":
				if !o.Ok {
					return true, t // not processed / not accepted: no effect
				}
				if t%2 == 0 {
					return true, t + 1
				}
				if multi[i.State] {
					return true, t + 2
				}
				return true, t
			case "remove":
				if !o.Ok {
					return true, t
				}
				if t%2 == 1 {
					return true, t + 1
				}
				return true, t
			}
			return false, t
		},
		DescribeOperation: func(in, out any) string { return fmt.Sprintf("%v -> %v", in, out) },
	}
	resL, _ := porcupine.CheckOperationsVerbose(model, ops, 20*time.Second)
	res.Evals += int64(len(ops))
	res.Key("lin", c.Seed)
	res.Count("lin_ops", int64(len(ops)))
	res.Count("lin_ops_told_canceled_but_processed", int64(toldCanceledButProcessed))
	switch resL {
	case porcupine.Illegal:
		var hs []string
		for _, o := range ops {
			hs = append(hs, fmt.Sprintf("g%d %v->%v [%d,%d]", o.ClientId, o.Input, o.Output, o.Call, o.Return))
		}
		res.Violate("C04/not-linearizable", "the client-boundary history of Add1/Remove1/Tick is not linearizable against the per-state tick model",
			map[string]any{"schema": spec.String(), "multi": multi, "history": hs})
	case porcupine.Unknown:
		res.Inconclusive = "porcupine timeout"
	}
	if strings.HasSuffix(c.ID, "/00000") {
		res.Sample = map[string]any{"schema": spec.String(), "goroutines": nG, "ops": len(ops)}
	}
}

func (eng) Run(c core.CaseDesc, tier string) *core.CaseResult {
	res := &core.CaseResult{Case: c}
	switch c.Kind {
	case "stress":
		runStress(res, c)
	case "script":
		runScript(res, c)
	case "wq":
		runWqWindow(res, c)
	case "lin":
		runLin(res, c)
	case "dedup":
		runDedup(res, c)
	case "dedupwin":
		runDedupWindow(res, c)
	case "rmstale":
		runRemoveBehindQueuedAdd(res, c)
	case "evalpanic":
		runEvalPanic(res, c)
	}
	return res
}

// runEvalPanic: the function given to Eval panics. Case 0: on an idle machine
// (the function runs on the caller's goroutine); case 1: queued behind a
// running handler, so that it runs on the goroutine of whoever drains the
// queue. In both cases the queue has to go on: a later mutation is processed,
// and the caller whose goroutine drained the queue gets its result, not the
// panic of somebody else's function.
func runEvalPanic(res *core.CaseResult, c core.CaseDesc) {
	m := am.New(context.Background(), am.Schema{"A": {}, "Hold": {}},
		&am.Opts{Id: "c04ep", DontLogId: true, DontLogStackTrace: true, HandlerTimeout: 30 * time.Second})
	defer m.Dispose()
	m.EvalTimeout = 3 * time.Second
	evalCall := func() (panicked any) {
		defer func() { panicked = recover() }()
		m.Eval("verif", func() { panic("c04 eval fault") }, nil)
		return nil
	}
	var drainerPanic any
	if c.Seed == 0 {
		_ = evalCall()
	} else {
		entered := make(chan struct{})
		gate := make(chan struct{})
		_, _ = m.HandlersBindMaps(nil, map[string]am.HandlerFinal{
			"HoldState": func(e *am.Event) {
				close(entered)
				select {
				case <-gate:
				case <-time.After(20 * time.Second):
				}
			},
		})
		holdDone := make(chan struct{})
		go func() {
			defer close(holdDone)
			defer func() { drainerPanic = recover() }()
			m.Add1("Hold", nil)
		}()
		select {
		case <-entered:
		case <-time.After(10 * time.Second):
			res.Inconclusive = "the holding handler was not entered"
			close(gate)
			return
		}
		evalDone := make(chan struct{})
		go func() { defer close(evalDone); _ = evalCall() }()
		for i := 0; i < 2000 && m.QueueLen() == 0; i++ {
			time.Sleep(time.Millisecond)
		}
		close(gate)
		select {
		case <-holdDone:
		case <-time.After(10 * time.Second):
			res.Inconclusive = "Add1(Hold) did not return"
			return
		}
		select {
		case <-evalDone:
		case <-time.After(10 * time.Second):
		}
	}
	res.Evals++
	if drainerPanic != nil {
		res.Violate("C04/eval-panic/escapes-into-the-draining-caller", fmt.Sprintf(
			"Add1(Hold) panicked with %v: the function another goroutine gave to Eval panicked while this caller was draining the queue", drainerPanic), nil)
		return
	}
	ret := make(chan am.Result, 1)
	go func() { ret <- m.Add1("A", am.A{"uid": rec.NextUid()}) }()
	res.Evals++
	select {
	case rs := <-ret:
		if q := quiesce(m); q != "" || !m.Is1("A") {
			res.Violate("C04/stranded/after-eval-panic", fmt.Sprintf(
				"after the function given to Eval panicked, Add1(A) returned %s and A is active=%v on a machine that %s (queue length %d): the queue is never processed again",
				rec.ResStr(rs), m.Is1("A"), map[bool]string{true: "is idle", false: "does not get idle: " + q}[q == ""], m.QueueLen()), nil)
		}
	case <-time.After(10 * time.Second):
		res.Violate("C04/stranded/after-eval-panic", "after the function given to Eval panicked, Add1(A) did not return within 10s", map[string]any{"dump": core.StackAll()})
	}
	res.Key("evalpanic", c.Seed)
}

// runRemoveBehindQueuedAdd: the End handler of a Remove(X) queues Add(B); as
// soon as that Add has been taken off the queue another goroutine issues
// Remove(B). The Remove is issued after the Add was queued, so B has to be
// inactive once the machine is idle, whatever the Remove returned.
func runRemoveBehindQueuedAdd(res *core.CaseResult, c core.CaseDesc) {
	m := am.New(context.Background(), am.Schema{"X": {}, "B": {}},
		&am.Opts{Id: "c04rs", DontLogId: true, DontLogStackTrace: true, HandlerTimeout: 30 * time.Second})
	defer m.Dispose()
	queued := make(chan am.Result, 1)
	_, _ = m.HandlersBindMaps(nil, map[string]am.HandlerFinal{
		"XEnd": func(e *am.Event) { queued <- m.Add1("B", nil) },
	})
	for round := 0; round < 400; round++ {
		m.Add1("X", nil)
		if m.Is1("B") {
			m.Remove1("B", nil)
		}
		if !m.Is1("X") || m.Is1("B") || m.QueueLen() != 0 {
			res.Inconclusive = "setup of a round failed: " + m.String()
			return
		}
		var rs am.Result
		var addTick am.Result
		done := make(chan struct{})
		go func() {
			defer close(done)
			select {
			case addTick = <-queued:
			case <-time.After(10 * time.Second):
				return
			}
			// ... and has just been taken off the queue
			for i := 0; m.QueueLen() > 0 && i < 50000000; i++ {
			}
			rs = m.Remove1("B", nil)
		}()
		m.Remove1("X", nil)
		<-done
		if q := quiesce(m); q != "" {
			res.Inconclusive = "no quiescence: " + q
			return
		}
		res.Evals++
		if m.Is1("B") {
			res.Violate("C04/lost-effect/remove-behind-a-queued-add", fmt.Sprintf(
				"round %d: Add1(B) was queued (tick %d) by the End handler of Remove1(X); Remove1(B), issued after that Add had left the queue, returned %s and B is active on the idle machine",
				round, uint64(addTick), rec.ResStr(rs)), map[string]any{"final": m.StringAll()})
			return
		}
	}
	res.Key("rmstale", c.Seed)
	res.Count("removes_issued_right_behind_a_dequeued_add", 400)
}

// runDedupWindow: an arg-less mutation is parked inside the duplicate
// detection (dq.found: its twin was found in the queue) while the queue moves
// on - the twin and the counter mutation behind it are processed. The parked
// mutation is the last one issued, so its effect has to show at the end.
func runDedupWindow(res *core.CaseResult, c core.CaseDesc) {
	add := c.Seed%2 == 0 // the parked mutation: Add A (after Add A, Remove A) or Remove A (after Remove A, Add A)
	extra := c.Seed/2 == 1
	m := am.New(context.Background(), am.Schema{"A": {}, "B": {}, "Hold": {}},
		&am.Opts{Id: "c04dw", DontLogId: true, DontLogStackTrace: true, HandlerTimeout: 30 * time.Second})
	defer m.Dispose()
	if !add {
		m.Add1("A", nil)
	}
	entered := make(chan struct{})
	gate := make(chan struct{})
	_, _ = m.HandlersBindMaps(nil, map[string]am.HandlerFinal{
		"HoldState": func(e *am.Event) {
			close(entered)
			select {
			case <-gate:
			case <-time.After(20 * time.Second):
			}
		},
	})
	am.VerifHookClear()
	defer am.VerifHookClear()
	holdDone := make(chan struct{})
	go func() { m.Add1("Hold", nil); close(holdDone) }()
	select {
	case <-entered:
	case <-time.After(10 * time.Second):
		res.Inconclusive = "the holding handler was not entered"
		close(gate)
		return
	}
	if extra {
		m.Add1("B", nil)
	}
	if add {
		m.Add1("A", nil)
		m.Remove1("A", nil)
	} else {
		m.Remove1("A", nil)
		m.Add1("A", nil)
	}
	winGate := make(chan struct{})
	reached := make(chan struct{})
	var once sync.Once
	am.VerifHookSet("dq.found", func() {
		once.Do(func() {
			close(reached)
			select {
			case <-winGate:
			case <-time.After(20 * time.Second):
			}
		})
	})
	lastDone := make(chan am.Result, 1)
	go func() {
		if add {
			lastDone <- m.Add1("A", nil)
		} else {
			lastDone <- m.Remove1("A", nil)
		}
	}()
	select {
	case <-reached:
	case <-time.After(10 * time.Second):
		res.Inconclusive = "dq.found not reached (the twin was not found in the queue)"
		close(gate)
		close(winGate)
		return
	}
	// the queue moves on underneath
	close(gate)
	<-holdDone
	for i := 0; i < 5000 && (m.QueueLen() > 0 || m.Transition() != nil); i++ {
		time.Sleep(time.Millisecond)
	}
	close(winGate)
	var rs am.Result
	select {
	case rs = <-lastDone:
	case <-time.After(10 * time.Second):
		res.Inconclusive = "the parked mutation did not return"
		return
	}
	if q := quiesce(m); q != "" {
		res.Inconclusive = "no quiescence: " + q
		return
	}
	res.Evals++
	res.Key("dedupwin", add, extra)
	if m.Is1("A") != add {
		op := "Remove1(A)"
		if add {
			op = "Add1(A)"
		}
		res.Violate("C04/lost-effect/duplicate-check-raced-the-queue", fmt.Sprintf(
			"%s was issued last (returned %s) but A is active=%v on the idle machine: it was dropped as a duplicate of a mutation that had left the queue, "+
				"together with the counter mutation behind it, while the duplicate check was between its two reads of the queue", op, rec.ResStr(rs), m.Is1("A")),
			map[string]any{"final": m.StringAll()})
	}
}

// runDedup: arg-less mutations (the only ones the queue may drop as
// duplicates) and arg-less checks are issued while a handler holds the queue,
// from the handler itself or from another goroutine. Whatever the queue drops,
// none of the issued mutations may be lost in effect: on a relation-free
// schema without vetoes the activity after the queue drained has to be the
// one a sequential application of the real (non-check) mutations in issue
// order gives.
func runDedup(res *core.CaseResult, c core.CaseDesc) {
	r := gen.NewRand(c.Seed, 47)
	states := am.S{"A", "B", "C"}
	m := am.New(context.Background(), am.Schema{"A": {}, "B": {}, "C": {}, "Hold": {}},
		&am.Opts{Id: "c04dd", DontLogId: true, DontLogStackTrace: true, HandlerTimeout: 30 * time.Second})
	defer m.Dispose()
	type dop struct {
		Kind  string `json:"kind"`
		State string `json:"state"`
		Res   string `json:"res"`
	}
	n := 2 + r.IntN(7)
	ops := make([]dop, n)
	for i := range ops {
		ops[i] = dop{Kind: []string{"add", "remove", "canadd", "canremove", "add", "remove"}[r.IntN(6)], State: states[r.IntN(2+r.IntN(2))]}
	}
	// some states start active
	want := map[string]bool{}
	for _, st := range states {
		if r.IntN(2) == 0 {
			m.Add1(st, nil)
			want[st] = true
		}
	}
	start := fmt.Sprint(m.ActiveStates(nil))
	fromHandler := r.IntN(2) == 0
	issue := func() {
		for i := range ops {
			var rs am.Result
			switch ops[i].Kind {
			case "add":
				rs = m.Add1(ops[i].State, nil)
			case "remove":
				rs = m.Remove1(ops[i].State, nil)
			case "canadd":
				rs = m.CanAdd1(ops[i].State, nil)
			case "canremove":
				rs = m.CanRemove1(ops[i].State, nil)
			}
			ops[i].Res = rec.ResStr(rs)
		}
	}
	entered := make(chan struct{})
	gate := make(chan struct{})
	_, _ = m.HandlersBindMaps(nil, map[string]am.HandlerFinal{
		"HoldState": func(e *am.Event) {
			if fromHandler {
				issue()
			}
			close(entered)
			select {
			case <-gate:
			case <-time.After(20 * time.Second):
			}
		},
	})
	done := make(chan struct{})
	go func() { m.Add1("Hold", nil); close(done) }()
	select {
	case <-entered:
	case <-time.After(10 * time.Second):
		res.Inconclusive = "the holding handler was not entered"
		close(gate)
		return
	}
	if !fromHandler {
		issue()
	}
	close(gate)
	<-done
	if q := quiesce(m); q != "" {
		res.Inconclusive = "no quiescence: " + q
		return
	}
	for _, o := range ops {
		switch o.Kind {
		case "add":
			want[o.State] = true
		case "remove":
			want[o.State] = false
		}
	}
	res.Evals += int64(len(ops))
	res.Count("argless_ops_issued_behind_a_held_queue", int64(len(ops)))
	for _, o := range ops {
		if o.Res == "Executed" && (o.Kind == "add" || o.Kind == "remove") {
			res.Count("mutations_answered_without_queueing", 1)
		}
	}
	for _, st := range states {
		if m.Is1(st) != want[st] {
			res.Violate("C04/lost-effect/argless-behind-held-queue", fmt.Sprintf(
				"after the queue drained %s is active=%v, the issued mutations applied one after the other give active=%v (a mutation was dropped although no later queued mutation has its effect)",
				st, m.Is1(st), want[st]), map[string]any{"start": start, "ops": ops, "issued_from_handler": fromHandler, "final": m.StringAll()})
			break
		}
	}
	res.Key(c.Seed, "dedup", n, fromHandler)
}

func main() { core.Main(eng{}) }
