package main

import (
	"context"
	"fmt"
	"math/rand/v2"
	"path/filepath"
	"slices"
	"strings"
	"time"

	"github.com/gdamore/tcell/v2"

	am "github.com/pancsta/asyncmachine-go/pkg/machine"
	"github.com/pancsta/asyncmachine-go/pkg/telemetry/dbg"
	"github.com/pancsta/asyncmachine-go/tools/debugger"
	"github.com/pancsta/asyncmachine-go/tools/debugger/types"

	"verif/core"
	"verif/rec"
)

// idle waits until the debugger machine has nothing queued and is not inside
// a transition (its navigation handlers are synchronous).
func (w *dbgWorld) idle() bool {
	still := 0
	for i := 0; i < 4000; i++ {
		if w.d.Mach.QueueLen() == 0 && w.d.Mach.Transition() == nil {
			still++
			if still >= 3 {
				return true
			}
		} else {
			still = 0
		}
		time.Sleep(2 * time.Millisecond)
	}
	return false
}

type view struct {
	selected string
	cursor   int
	filtered []int
	filters  map[string]bool
	active   bool
	n        int
}

var filterStates = []string{ss.FilterCanceledTx, ss.FilterAutoTx, ss.FilterAutoCanceledTx, ss.FilterEmptyTx, ss.FilterHealth, ss.FilterQueuedTx,
	ss.FilterOutGroup, ss.FilterChecks}

func (w *dbgWorld) view() *view {
	var v *view
	w.eval(func() {
		c := w.d.C
		if c == nil {
			return
		}
		v = &view{selected: c.Id, cursor: c.CursorTx1, filtered: slices.Clone(c.MsgTxsFiltered), filters: map[string]bool{}, n: len(c.MsgTxs)}
		for _, f := range filterStates {
			if w.d.Mach.Is1(f) {
				v.filters[f] = true
				v.active = true
			}
		}
		// any member of the Filters group makes filtering active
		for _, f := range ssGroupFilters() {
			if w.d.Mach.Is1(f) {
				v.active = true
			}
		}
	})
	return v
}

// passes: the reference filter predicate, from what the filter names say.
// undecided=true when a filter is active whose meaning depends on data the
// harness does not model (group selection).
func passes(cs *clientSnap, i int, f map[string]bool) (ok, undecided bool) {
	tx := cs.txs[i]
	if f[ss.FilterOutGroup] {
		undecided = true
	}
	if f[ss.FilterAutoTx] && tx.IsAuto {
		return false, undecided
	}
	if f[ss.FilterAutoCanceledTx] && tx.IsAuto && !tx.Accepted {
		return false, undecided
	}
	if f[ss.FilterAutoCanceledTx] && tx.IsAuto && tx.IsQueued {
		// a queued auto mutation that was canceled when executed: the link to
		// its execution is the debugger's own (not re-derived here)
		undecided = true
	}
	if f[ss.FilterCanceledTx] && !tx.Accepted {
		return false, undecided
	}
	if f[ss.FilterQueuedTx] && tx.IsQueued {
		return false, undecided
	}
	if f[ss.FilterChecks] && tx.IsCheck {
		return false, undecided
	}
	if f[ss.FilterEmptyTx] && cs.parsed[i].TimeDiff == 0 && !tx.IsQueued && tx.Accepted {
		return false, undecided
	}
	if f[ss.FilterHealth] {
		called := tx.CalledStateNames(cs.index)
		if len(called) == 1 && (called[0] == "Healthcheck" || called[0] == "Heartbeat") {
			return false, undecided
		}
	}
	return true, undecided
}

func (w *dbgWorld) cmd(state string, a *types.A) am.Result {
	var rs am.Result
	if a == nil {
		rs = w.d.Mach.Add1(state, nil)
	} else {
		rs = w.d.Mach.Add1(state, am.Pass(a))
	}
	w.idle()
	return rs
}

// judgeNavigation drives the debugger through its own states and checks the
// cursor and the filtered view after every command.
func judgeNavigation(res *core.CaseResult, w *dbgWorld, s *source, r *rand.Rand, cmds int) {
	id := s.m.Id()
	// select the client
	w.cmd(ss.SwitchingClientTx, &types.A{ClientId: id, CursorTx1: 1})
	for i := 0; i < 200; i++ {
		if v := w.view(); v != nil && v.selected == id && w.d.Mach.Is1(ss.ClientSelected) {
			break
		}
		time.Sleep(10 * time.Millisecond)
	}
	w.idle()
	v := w.view()
	if v == nil || v.selected != id {
		res.Inconclusive = "client " + id + " could not be selected"
		return
	}
	cs := w.snap(id)
	var log []string
	tools := []types.ToolName{types.ToolFilterCanceledTx, types.ToolFilterQueuedTx, types.ToolFilterAutoTx, types.ToolFilterEmptyTx}
	for k := 0; k < cmds+2; k++ {
		before := w.view()
		if k >= cmds {
			// directed: from the last (first) shown record a step forward
			// (back) has nowhere to go
			if !before.active || len(before.filtered) == 0 {
				break
			}
			edge := before.filtered[len(before.filtered)-1] + 1
			step, name := ss.UserFwd, "edge-fwd"
			if k == cmds+1 {
				edge, step, name = before.filtered[0]+1, ss.UserBack, "edge-back"
			}
			w.cmd(ss.ScrollToTx, &types.A{CursorTx1: edge})
			at := w.view()
			w.cmd(step, nil)
			after := w.view()
			log = append(log, fmt.Sprintf("scroll(%d)", edge), name)
			res.Evals++
			if name == "edge-fwd" && at.cursor == edge && after.cursor != edge {
				res.Violate("C16/nav/fwd-at-last-shown", fmt.Sprintf("forward from the last shown record (cursor %d of %d records, %d hidden after it) moved the cursor to %d (filters %v; commands: %s)",
					edge, at.n, at.n-edge, after.cursor, fnames(at.filters), strings.Join(log, " ")), nil)
				return
			}
			if name == "edge-back" && at.cursor == edge && after.cursor != 0 && after.cursor != edge {
				res.Violate("C16/nav/back-at-first-shown", fmt.Sprintf("back from the first shown record (cursor %d) moved the cursor to %d (filters %v; commands: %s)",
					edge, after.cursor, fnames(at.filters), strings.Join(log, " ")), nil)
				return
			}
			res.Key("nav", name, at.n-edge > 0)
			continue
		}
		var name string
		switch r.IntN(7) {
		case 0, 1:
			name = "fwd"
			w.cmd(ss.UserFwd, nil)
		case 2, 3:
			name = "back"
			w.cmd(ss.UserBack, nil)
		case 4:
			to := 1 + r.IntN(max(before.n, 1))
			name = fmt.Sprintf("scroll(%d)", to)
			w.cmd(ss.ScrollToTx, &types.A{CursorTx1: to})
		case 5:
			t := tools[r.IntN(len(tools))]
			name = "toggle(" + t.Value + ")"
			w.cmd(ss.ToggleTool, &types.A{ToolName: t})
		default:
			// forward then back from a shown transition returns to it
			name = "fwd+back"
			w.cmd(ss.UserFwd, nil)
			mid := w.view()
			if mid.cursor != before.cursor {
				w.cmd(ss.UserBack, nil)
				after := w.view()
				res.Evals++
				shown := before.cursor > 0
				if shown && before.active {
					shown = slices.Contains(before.filtered, before.cursor-1)
				}
				if shown && after.cursor != before.cursor {
					res.Violate("C16/nav/fwd-back", fmt.Sprintf("from cursor %d forward went to %d and back to %d (filters %v; %d records; commands: %s)", before.cursor, mid.cursor, after.cursor,
						fnames(before.filters), before.n, strings.Join(log, " ")), nil)
					return
				}
				res.Key("nav", "fwd+back", before.active)
			}
		}
		log = append(log, name)
		after := w.view()
		if after == nil {
			res.Inconclusive = "the debugger lost its client"
			return
		}
		res.Evals++
		// the filtered view is exactly the matching records
		if after.active {
			for i := range cs.txs {
				ok, und := passes(cs, i, after.filters)
				if und {
					continue
				}
				in := slices.Contains(after.filtered, i)
				if in && !ok {
					res.Violate("C16/filter/shows-non-matching", fmt.Sprintf("record %d (%s) is in the filtered view but does not match the filters %v (after: %s)", i, txDesc(cs, i), fnames(after.filters),
						strings.Join(log, " ")), nil)
					return
				}
				if !in && ok {
					// not part of the statement (it only forbids showing what does
					// not match): counted, not judged
					res.Count("matching_records_hidden_by_a_stale_view", 1)
				}
			}
			if after.cursor > 0 {
				if ok, und := passes(cs, after.cursor-1, after.filters); !ok && !und {
					res.Violate("C16/filter/cursor-on-non-matching", fmt.Sprintf("the cursor rests on record %d (%s), which does not match the filters %v (after: %s)", after.cursor-1, txDesc(cs, after.cursor-1),
						fnames(after.filters), strings.Join(log, " ")), nil)
					return
				}
			}
		}
		// single steps move to the neighbouring record of the debugger's own
		// filtered view (whether that view is the right one is judged above)
		und := false
		shown := func(i int) bool {
			if !before.active {
				return true
			}
			return slices.Contains(before.filtered, i)
		}
		switch name {
		case "fwd":
			want := before.cursor
			for i := before.cursor; i < before.n; i++ { // index i is cursor i+1
				if shown(i) {
					want = i + 1
					break
				}
			}
			if before.cursor >= before.n {
				want = before.cursor
			}
			// (no later shown record: the cursor stays; it resets only when it sat
			// on a hidden record)
			onHidden := before.cursor > 0 && !shown(before.cursor-1)
			if !und && after.cursor != want && !(want == before.cursor && after.cursor == 0 && (onHidden || before.cursor == 0)) {
				res.Violate("C16/nav/fwd", fmt.Sprintf("forward from cursor %d moved to %d, the next shown record is at cursor %d (filters %v, %d records; commands: %s)", before.cursor, after.cursor, want,
					fnames(before.filters), before.n, strings.Join(log, " ")), nil)
				return
			}
		case "back":
			want := 0
			for i := before.cursor - 2; i >= 0; i-- {
				if shown(i) {
					want = i + 1
					break
				}
			}
			if before.cursor == 0 {
				want = 0
			}
			if !und && after.cursor != want {
				res.Violate("C16/nav/back", fmt.Sprintf("back from cursor %d moved to %d, the previous shown record is at cursor %d (filters %v, %d records; commands: %s)", before.cursor, after.cursor, want,
					fnames(before.filters), before.n, strings.Join(log, " ")), nil)
				return
			}
		}
		res.Key("nav", strings.SplitN(name, "(", 2)[0], after.active, after.cursor == 0, after.cursor == after.n)
	}
	// directed: the checks filter as the only active one (every filter of the
	// Filters group off): stepping through the list must not rest on a check
	hasCheck := false
	for _, tx := range cs.txs {
		if tx.IsCheck {
			hasCheck = true
		}
	}
	if !hasCheck {
		return
	}
	w.d.Mach.Remove(ssGroupFilters(), nil)
	w.d.Mach.Add1(ss.FilterChecks, nil)
	w.idle()
	v = w.view()
	if v == nil || len(v.filters) != 1 || !v.filters[ss.FilterChecks] {
		res.Count("checks_only_filter_not_reached", 1)
		return
	}
	w.cmd(ss.ScrollToTx, &types.A{CursorTx1: 1})
	for k := 0; k < len(cs.txs)+2; k++ {
		at := w.view()
		if at == nil || at.cursor >= at.n {
			break
		}
		w.cmd(ss.UserFwd, nil)
		after := w.view()
		if after == nil || after.cursor == at.cursor {
			break
		}
		res.Evals++
		if after.cursor > 0 && after.cursor-1 < len(cs.txs) && cs.txs[after.cursor-1].IsCheck {
			res.Violate("C16/filter/cursor-on-non-matching/checks-filter-alone", fmt.Sprintf(
				"with the checks filter as the only active filter, forward from cursor %d rests on record %d (%s), a check", at.cursor, after.cursor-1, txDesc(cs, after.cursor-1)), nil)
			return
		}
	}
	res.Key("nav", "checks-filter-alone")
	res.Count("walks_with_the_checks_filter_alone", 1)
}

func fnames(f map[string]bool) []string {
	var r []string
	for k := range f {
		r = append(r, k)
	}
	slices.Sort(r)
	return r
}

func txDesc(cs *clientSnap, i int) string {
	tx := cs.txs[i]
	return fmt.Sprintf("%s %v accepted=%v queued=%v auto=%v check=%v diff=%d", tx.Type, tx.CalledStateNames(cs.index), tx.Accepted, tx.IsQueued, tx.IsAuto, tx.IsCheck, cs.parsed[i].TimeDiff)
}

// judgeExport: an exported session imports to the same records.
func judgeExport(res *core.CaseResult, w *dbgWorld, ids []string) {
	before := map[string]*clientSnap{}
	for _, id := range ids {
		before[id] = w.snap(id)
	}
	// the export runs where the dialog's Save button runs it: outside the
	// machine's queue (it reads the cursor through an Eval of its own), while
	// nothing else arrives
	w.idle()
	w.d.VerifExport("c16-export", false)
	path := filepath.Join(w.dir, "c16-export.gob.br")
	ctx, cancel := context.WithCancel(context.Background())
	defer cancel()
	screen := tcell.NewSimulationScreen("utf8")
	screen.SetSize(120, 50)
	_ = screen.Init()
	d2, err := debugger.New(ctx, types.Params{Id: "c16-import", Screen: screen, ImportData: path, OutputDir: w.dir, MaxMemMb: 1000, ViewTimelines: types.ParamsViewTimelinesTwo})
	if err != nil {
		res.Violate("C16/export/import-failed", fmt.Sprintf("a debugger given the exported file did not start: %v", err), nil)
		return
	}
	defer d2.Mach.Dispose()
	w2 := &dbgWorld{d: d2}
	for _, id := range ids {
		res.Evals++
		a, b := before[id], w2.snap(id)
		if b == nil {
			res.Violate("C16/export/client-missing", fmt.Sprintf("client %s is missing after export -> import (imported: %v, debugger error: %v)", id, w2.clientIds(), d2.Mach.Err()), nil)
			return
		}
		if len(a.txs) != len(b.txs) || len(a.parsed) != len(b.parsed) {
			res.Violate("C16/export/length", fmt.Sprintf("client %s: %d records (%d parsed) before, %d (%d parsed) after export -> import", id, len(a.txs), len(a.parsed), len(b.txs), len(b.parsed)), nil)
			return
		}
		for i := range a.txs {
			if !sameTx(a.txs[i], b.txs[i]) {
				res.Violate("C16/export/record", fmt.Sprintf("client %s record %d differs after export -> import: %s vs %s", id, i, txLine(a.txs[i]), txLine(b.txs[i])), nil)
				return
			}
			pa, pb := a.parsed[i], b.parsed[i]
			if pa.TimeSum != pb.TimeSum || pa.TimeDiff != pb.TimeDiff || !sameInts(pa.StatesAdded, pb.StatesAdded) || !sameInts(pa.StatesRemoved, pb.StatesRemoved) {
				res.Violate("C16/export/parsed", fmt.Sprintf("client %s record %d: derived data differs after export -> import (%+v vs %+v)", id, i, *pa, *pb), nil)
				return
			}
		}
		if !slices.Equal(a.errors, b.errors) {
			res.Violate("C16/export/errors", fmt.Sprintf("client %s: Errors %v before, %v after export -> import", id, trunc(a.errors), trunc(b.errors)), nil)
			return
		}
		res.Key("export", len(a.txs) > 0, len(a.errors) > 0)
	}
}

func (w *dbgWorld) clientIds() []string {
	var ids []string
	w.eval(func() {
		for id := range w.d.Clients {
			ids = append(ids, id)
		}
	})
	slices.Sort(ids)
	return ids
}

func sameTx(a, b *dbg.DbgMsgTx) bool {
	return a.ID == b.ID && rec.TimeEq(a.Clocks, b.Clocks) && a.Accepted == b.Accepted && a.IsQueued == b.IsQueued && a.IsAuto == b.IsAuto &&
		a.IsCheck == b.IsCheck && a.Type == b.Type && a.QueueTick == b.QueueTick && slices.Equal(a.CalledStatesIdxs, b.CalledStatesIdxs)
}

func txLine(t *dbg.DbgMsgTx) string {
	return fmt.Sprintf("{%s %s %v clocks=%v acc=%v q=%v qt=%d}", t.ID, t.Type, t.CalledStatesIdxs, t.Clocks, t.Accepted, t.IsQueued, t.QueueTick)
}
