// C16: the debugger shows each transition as it happened and navigates
// consistently.
package main

import (
	"context"
	"encoding/json"
	"fmt"
	"math/rand/v2"
	"net"
	"os"
	"path/filepath"
	"slices"
	"strings"
	"time"

	"github.com/gdamore/tcell/v2"

	am "github.com/pancsta/asyncmachine-go/pkg/machine"
	"github.com/pancsta/asyncmachine-go/pkg/telemetry/dbg"
	"github.com/pancsta/asyncmachine-go/tools/debugger"
	"github.com/pancsta/asyncmachine-go/tools/debugger/server"
	ssdbg "github.com/pancsta/asyncmachine-go/tools/debugger/states"
	"github.com/pancsta/asyncmachine-go/tools/debugger/types"

	"verif/core"
	"verif/gen"
	"verif/rec"
)

type eng struct{}

func (eng) Property() string { return "C16" }
func (eng) Level() string    { return "exploration" }
func (eng) Rule() string {
	return "cases: a headless am-dbg (tcell simulation screen) with its telemetry server on a loopback port receives the " +
		"streams of 1..3 real machines over PRNG schemas (relations, Multi, Auto, Err* states) driven by PRNG mutation " +
		"histories (Add/Remove/Set/Toggle, AddErr, Can* checks, bursts issued from inside a handler so that mutations are " +
		"queued, canceled transitions). Every source machine also carries an independent recording tracer. After the " +
		"stream arrived the debugger's per-client arrays are compared record by record with the recording, derived data " +
		"with what consecutive records imply, the lookup helpers with a linear scan over the same arrays for every " +
		"record and PRNG probes, navigation (UserFwd/UserBack/ScrollToTx, filters) with a reference cursor model, and " +
		"export -> import with identity. An evaluation is one record, lookup or navigation step judged; a distinct item " +
		"is a distinct (check kind, outcome class)."
}
func (eng) Assumptions() []string {
	return []string{
		"queued-mutation messages are part of the stream and are matched positionally by IsQueued; executed records are matched by transition id",
		"lookups are compared with a scan over the debugger's own arrays",
		"the debugger machine is read only through Eval (its handlers own the client data)",
	}
}

type streamP struct {
	Machines int  `json:"machines"`
	N        int  `json:"n"`
	Cmds     int  `json:"cmds"`
	Busy     bool `json:"busy,omitempty"`
}

func mk(id, kind string, seed uint64, p any) core.CaseDesc {
	raw, _ := json.Marshal(p)
	return core.CaseDesc{ID: id, Kind: kind, Seed: seed, P: raw}
}

func (eng) Cases(seed uint64, tier string) []core.CaseDesc {
	var cs []core.CaseDesc
	n := 8
	if tier == "thorough" {
		n = 200
	}
	for i := 0; i < n; i++ {
		r := gen.NewRand(seed*15485863+uint64(i), 16)
		p := streamP{Machines: 1 + r.IntN(3), N: 20 + r.IntN(60), Cmds: 40, Busy: i%4 == 3}
		if tier == "thorough" && i%10 == 0 {
			p.N = 400 + r.IntN(1600)
		}
		cs = append(cs, mk(fmt.Sprintf("stream/%04d", i), "stream", seed*1000003+uint64(i), p))
	}
	return cs
}

func (eng) CaseTimeout(tier string) time.Duration { return 240 * time.Second }
func (eng) Children(tier string) int              { return 8 }

func main() {
	// no stack trace per queued mutation (keeps the exported session small:
	// the export compresses with brotli at its highest quality)
	_ = os.Setenv(dbg.EnvAmDbgNoTrace, "1")
	core.Main(eng{})
}

var ss = ssdbg.DebuggerStates

// ---------- the debugger under test

type dbgWorld struct {
	d      *debugger.Debugger
	addr   string
	dir    string
	cancel context.CancelFunc
	evalTimeouts int
}

func freePort() string {
	l, err := net.Listen("tcp", "127.0.0.1:0")
	if err != nil {
		return "127.0.0.1:16831"
	}
	defer l.Close()
	return l.Addr().String()
}

func startDebugger(id string) (*dbgWorld, error) {
	ctx, cancel := context.WithCancel(context.Background())
	dir := filepath.Join("/verif/.build/tmp/c16", fmt.Sprintf("%d-%s", os.Getpid(), id))
	_ = os.RemoveAll(dir)
	_ = os.MkdirAll(dir, 0o755)
	screen := tcell.NewSimulationScreen("utf8")
	screen.SetSize(120, 50)
	_ = screen.Init()
	screen.Clear()
	addr := freePort()
	p := types.Params{
		Id:              "c16-" + id,
		Screen:          screen,
		ListenAddr:      addr,
		OutputDir:       dir,
		EnableClipboard: false,
		SelectConnected: true,
		MaxMemMb:        1000,
		ViewTimelines:   types.ParamsViewTimelinesTwo,
	}
	d, err := debugger.New(ctx, p)
	if err != nil {
		cancel()
		return nil, err
	}
	d.Mach.EvalTimeout = time.Minute
	d.ServerMux, d.ServerHttp, err = server.New(d.Mach, addr, p)
	if err != nil {
		cancel()
		return nil, err
	}
	if d.Mach.Add1(ss.Start, nil) == am.Canceled {
		cancel()
		return nil, fmt.Errorf("the debugger did not start")
	}
	select {
	case <-d.Mach.When1(ss.Ready, ctx):
	case <-time.After(20 * time.Second):
		cancel()
		return nil, fmt.Errorf("the debugger did not get Ready")
	}
	return &dbgWorld{d: d, addr: addr, dir: dir, cancel: cancel}, nil
}

func (w *dbgWorld) close() {
	w.d.Mach.Add1(ss.Disposing, nil)
	w.cancel()
	_ = os.RemoveAll(w.dir)
}

// eval runs fn inside the debugger machine.
func (w *dbgWorld) eval(fn func()) bool {
	t0 := time.Now()
	fin := make(chan struct{})
	go func() {
		select {
		case <-fin:
		case <-time.After(20 * time.Second):
			_ = os.WriteFile(fmt.Sprintf("/verif/.build/c16-evalwait-%d.dump", os.Getpid()), []byte(core.StackAll()), 0o644)
		}
	}()
	ok := w.d.Mach.Eval("c16", fn, context.Background())
	close(fin)
	if !ok || time.Since(t0) > 60*time.Second {
		w.evalTimeouts++
		_ = os.WriteFile(fmt.Sprintf("/verif/.build/c16-eval-%d.dump", os.Getpid()), []byte(fmt.Sprintf("ok=%v after %v\n", ok, time.Since(t0))+core.StackAll()), 0o644)
	}
	return ok
}

// ---------- sources

type source struct {
	m    *am.Machine
	tr   *rec.Tracer
	spec gen.SchemaSpec
	// grows: the schema gets two more states after the first part of the stream
	grows bool
	grown bool
}

// traced: the transitions the dbg tracer is meant to stream (checks only when
// the machine logs them).
func (s *source) traced() []*rec.TxRec {
	var out []*rec.TxRec
	can := s.m.SemLogger().IsCan()
	for _, tx := range s.tr.Snapshot() {
		if tx.IsCheck && !can {
			continue
		}
		if !strings.Contains(tx.Callbacks, "E") {
			continue
		}
		out = append(out, tx)
	}
	return out
}

func newSource(r *rand.Rand, id, addr string) (*source, error) {
	spec := gen.RandSchema(r, gen.SchemaOpts{MinStates: 3, MaxStates: 7, PRequire: 0.06, PAdd: 0.08, PRemove: 0.1,
		PAuto: 0.12, PMulti: 0.2, AcyclicRequire: true})
	sc := spec.Schema()
	// an Err* state, as the error index looks for the prefix
	sc["ErrNet"] = am.State{Require: am.S{am.StateException}}
	tr := rec.NewTracer("ref")
	tr.NoSample = true
	m := am.New(context.Background(), sc, &am.Opts{Id: id, DontLogId: true, DontLogStackTrace: true, Tracers: []am.Tracer{tr}})
	// a handler that issues follow-up mutations (queued while the transition runs)
	_, _ = m.HandlersBindMaps(nil, map[string]am.HandlerFinal{
		spec.Names[0] + "State": func(e *am.Event) {
			m.Add1(spec.Names[1], nil)
			m.Remove1(spec.Names[2], nil)
		},
	})
	m.SemLogger().SetLevel(am.LogChanges)
	// half of the sources (the first one always) also stream their Can* checks
	m.SemLogger().EnableCan(r.IntN(2) == 0 || strings.HasPrefix(id, "c16m0-"))
	if err := dbg.TransitionsToDbg(m, addr); err != nil {
		return nil, err
	}
	return &source{m: m, tr: tr, spec: spec}, nil
}

// grow appends two states to the source's schema mid-stream (SetSchema); they
// take part in the driving from then on.
func (s *source) grow() error {
	if s.grown {
		return nil
	}
	sc := s.m.Schema()
	names := append(am.S{}, s.m.StateNames()...)
	for _, n := range []string{"Y1", "Y2"} {
		sc[n] = am.State{}
		names = append(names, n)
	}
	if err := s.m.SetSchema(sc, names); err != nil {
		return err
	}
	s.grown = true
	s.spec.Names = append(append([]string{}, s.spec.Names...), "Y1", "Y2")
	return nil
}

func (s *source) drive(r *rand.Rand, n int) {
	names := s.spec.Names
	kinds := []string{"add", "add", "remove", "set", "toggle", "adderr", "canadd"}
	for i := 0; i < n; i++ {
		op := gen.RandOp(r, names, kinds)
		op.NoArgs = true
		if r.IntN(15) == 0 {
			s.m.AddErrState("ErrNet", rec.ErrInjected, nil)
			continue
		}
		if op.Kind == "adderr" && r.IntN(3) != 0 {
			s.m.Remove1(am.StateException, nil)
			continue
		}
		rec.Apply(s.m, op)
	}
}

func (e eng) Run(c core.CaseDesc, tier string) *core.CaseResult {
	res := &core.CaseResult{Case: c}
	var p streamP
	_ = json.Unmarshal(c.P, &p)
	r := gen.NewRand(c.Seed, 16)
	w, err := startDebugger(strings.ReplaceAll(c.ID, "/", "_"))
	if err != nil {
		res.Inconclusive = "debugger start: " + err.Error()
		return res
	}
	defer w.close()
	var srcs []*source
	for i := 0; i < p.Machines; i++ {
		s, err := newSource(r, fmt.Sprintf("c16m%d-%d", i, c.Seed%100000), w.addr)
		if err != nil {
			res.Inconclusive = "source: " + err.Error()
			return res
		}
		// the last source of every other stream grows its schema mid-stream
		s.grows = !p.Busy && i == p.Machines-1 && c.Seed%2 == 0
		srcs = append(srcs, s)
	}
	defer func() {
		for _, s := range srcs {
			s.m.Dispose()
		}
	}()
	// interleaved driving
	per := p.N / len(srcs)
	if p.Busy {
		// the debugger machine is kept busy across several debounce periods
		// while telemetry keeps arriving, so that several ClientMsg batches
		// queue up behind each other
		stopBusy := make(chan struct{})
		busyDone := make(chan struct{})
		go func() {
			defer close(busyDone)
			for i := 0; i < 3; i++ {
				select {
				case <-stopBusy:
					return
				default:
				}
				w.eval(func() { time.Sleep(1300 * time.Millisecond) })
				time.Sleep(50 * time.Millisecond)
			}
		}()
		for round := 0; round < 10; round++ {
			for _, s := range srcs {
				s.drive(r, per/10+1)
			}
			time.Sleep(400 * time.Millisecond)
		}
		close(stopBusy)
		<-busyDone
		res.Count("busy_streams", 1)
	} else {
		for round := 0; round < 4; round++ {
			for _, s := range srcs {
				if round == 2 && s.grows {
					if err := s.grow(); err != nil {
						res.Inconclusive = "SetSchema: " + err.Error()
						return res
					}
					res.Count("sources_growing_their_schema_mid_stream", 1)
					// the first transitions on the longer schema activate the new states
					s.m.Add1("Y1", nil)
					s.m.Add(am.S{"Y2", s.spec.Names[0]}, nil)
				}
				s.drive(r, per/4+1)
			}
		}
	}
	// every stream ends with a few checks: for the sources that stream them
	// the default FilterChecks hides the tail of the list
	for _, s := range srcs {
		for k := 0; k < 3; k++ {
			s.m.CanAdd1(s.spec.Names[k%len(s.spec.Names)], nil)
		}
	}
	// look transition ids up BEFORE their records arrive (the server debounces
	// for a second), then again with everything else once they did
	for _, s := range srcs {
		if !w.waitFor(s.m.Id(), len(s.traced())) {
			break
		}
		before := len(s.traced())
		s.drive(r, 6)
		ids := s.traced()[before:]
		early := 0
		w.eval(func() {
			c := w.d.Clients[s.m.Id()]
			if c == nil {
				return
			}
			for _, tx := range ids {
				if c.TxIndex(tx.TxId) == -1 {
					early++
				}
			}
		})
		res.Count("ids_looked_up_before_arrival", int64(early))
	}
	// wait for the streams
	for _, s := range srcs {
		want := len(s.traced())
		if !w.waitFor(s.m.Id(), want) {
			got := w.executedCount(s.m.Id())
			res.Violate("C16/stream/missing-records", fmt.Sprintf("client %s: the source made %d traced transitions, the debugger holds %d executed records after the stream went quiet",
				s.m.Id(), want, got), nil)
			return res
		}
	}
	var ids []string
	for _, s := range srcs {
		ids = append(ids, s.m.Id())
		judgeClient(res, w, s, r)
		if len(res.Violations) > 0 {
			return res
		}
	}
	judgeExport(res, w, ids)
	if len(res.Violations) > 0 || res.Inconclusive != "" {
		return res
	}
	for _, s := range srcs {
		judgeNavigation(res, w, s, r, p.Cmds)
		if len(res.Violations) > 0 || res.Inconclusive != "" {
			return res
		}
	}
	return res
}

func ssGroupFilters() am.S { return ssdbg.DebuggerGroups.Filters }

// executedCount: non-queued records of a client.
func (w *dbgWorld) executedCount(id string) int {
	n := -1
	w.eval(func() {
		c := w.d.Clients[id]
		if c == nil {
			return
		}
		n = 0
		for _, tx := range c.MsgTxs {
			if !tx.IsQueued {
				n++
			}
		}
	})
	return n
}

// waitFor: the stream has arrived when the executed-record count reached the
// recording's; gives up when the count stopped moving for several debounce
// periods.
func (w *dbgWorld) waitFor(id string, want int) bool {
	last, still := -2, 0
	for i := 0; i < 2400; i++ {
		n := w.executedCount(id)
		if n >= want {
			return true
		}
		if n == last {
			still++
			if still > 400 {
				return false
			}
		} else {
			still, last = 0, n
		}
		time.Sleep(50 * time.Millisecond)
	}
	return false
}

// clientSnap is a copy of what the debugger holds for one client.
type clientSnap struct {
	index    am.S
	txs      []*dbg.DbgMsgTx
	parsed   []*types.MsgTxParsed
	errors   []int
	filtered []int
}

func (w *dbgWorld) snap(id string) *clientSnap {
	var s *clientSnap
	w.eval(func() {
		c := w.d.Clients[id]
		if c == nil || c.MsgStruct == nil {
			return
		}
		s = &clientSnap{index: slices.Clone(c.MsgStruct.StatesIndex), txs: slices.Clone(c.MsgTxs), parsed: slices.Clone(c.MsgTxsParsed),
			errors: slices.Clone(c.Errors), filtered: slices.Clone(c.MsgTxsFiltered)}
	})
	return s
}

func judgeClient(res *core.CaseResult, w *dbgWorld, s *source, r *rand.Rand) {
	id := s.m.Id()
	cs := w.snap(id)
	if cs == nil {
		res.Violate("C16/stream/no-client", "no client for "+id, nil)
		return
	}
	ref := s.traced()
	// 1. fidelity: the N-th executed record is the N-th traced transition
	k := 0
	for i, tx := range cs.txs {
		if tx.IsQueued {
			continue
		}
		res.Evals++
		if k >= len(ref) {
			res.Violate("C16/fidelity/extra-record", fmt.Sprintf("record #%d (%s) has no traced transition (the source made %d)", i, tx.ID, len(ref)), nil)
			return
		}
		rt := ref[k]
		if tx.ID != rt.TxId {
			res.Violate("C16/fidelity/order", fmt.Sprintf("executed record %d (array index %d) is transition %s, the source's %d-th traced transition is %s", k, i, tx.ID, k, rt.TxId), nil)
			return
		}
		if !rec.TimeEq(tx.Clocks, rt.After) {
			res.Violate("C16/fidelity/clocks", fmt.Sprintf("record of %s carries clocks %v, the machine had %v after it", tx.ID, tx.Clocks, rt.After), nil)
			return
		}
		if tx.Accepted != rt.Accepted || tx.IsCheck != rt.IsCheck || tx.IsAuto != rt.IsAuto {
			res.Violate("C16/fidelity/flags", fmt.Sprintf("record of %s: accepted/check/auto = %v/%v/%v, traced %v/%v/%v", tx.ID, tx.Accepted, tx.IsCheck, tx.IsAuto,
				rt.Accepted, rt.IsCheck, rt.IsAuto), nil)
			return
		}
		k++
	}
	res.Key("fidelity", k > 0, len(cs.txs) > k)
	res.Count("records_compared", int64(k))
	res.Count("queued_records", int64(len(cs.txs)-k))
	// 2. derived data follows from consecutive records
	if len(cs.parsed) != len(cs.txs) {
		res.Violate("C16/derived/length", fmt.Sprintf("%d parsed records for %d records", len(cs.parsed), len(cs.txs)), nil)
		return
	}
	var wantErrs []int
	for i, tx := range cs.txs {
		res.Evals++
		var prev am.Time
		var prevSum uint64
		if i > 0 {
			prev = cs.txs[i-1].Clocks
			prevSum = cs.txs[i-1].Clocks.Sum(nil)
		}
		sum := tx.Clocks.Sum(nil)
		pp := cs.parsed[i]
		if pp.TimeSum != sum {
			res.Violate("C16/derived/timesum", fmt.Sprintf("record %d: TimeSum=%d, its clocks sum to %d", i, pp.TimeSum, sum), nil)
			return
		}
		if sum >= prevSum && pp.TimeDiff != sum-prevSum {
			res.Violate("C16/derived/timediff", fmt.Sprintf("record %d: TimeDiff=%d, the sums of this and the previous record are %d and %d", i, pp.TimeDiff, sum, prevSum), nil)
			return
		}
		var added, removed []int
		for j, v := range tx.Clocks {
			var pv uint64
			if j < len(prev) {
				pv = prev[j]
			}
			// (a Multi state re-entered while active counts as added, as the
			// helper documents)
			if am.IsActiveTick(v) && (!am.IsActiveTick(pv) || (i > 0 && v != pv)) {
				added = append(added, j)
			}
			if !am.IsActiveTick(v) && am.IsActiveTick(pv) {
				removed = append(removed, j)
			}
		}
		if !sameInts(pp.StatesAdded, added) || !sameInts(pp.StatesRemoved, removed) {
			res.Violate("C16/derived/added-removed", fmt.Sprintf("record %d: added=%v removed=%v, consecutive clocks %v -> %v give added=%v removed=%v", i, pp.StatesAdded, pp.StatesRemoved,
				prev, tx.Clocks, added, removed), nil)
			return
		}
		isErr := false
		for j, n := range cs.index {
			if (n == am.StateException || strings.HasPrefix(n, am.PrefixErr)) && j < len(tx.Clocks) && am.IsActiveTick(tx.Clocks[j]) {
				isErr = true
			}
		}
		if isErr {
			wantErrs = append([]int{i}, wantErrs...)
		}
	}
	res.Evals++
	if !slices.Equal(cs.errors, wantErrs) {
		res.Violate("C16/derived/errors", fmt.Sprintf("Errors=%v, the records with Exception/Err* active are (descending) %v", trunc(cs.errors), trunc(wantErrs)), nil)
		return
	}
	res.Key("derived", len(wantErrs) > 0)
	// 3. lookups against a linear scan over the same arrays
	judgeLookups(res, w, id, cs, r)
}

func trunc(l []int) []int {
	if len(l) > 30 {
		return l[:30]
	}
	return l
}

func sameInts(a, b []int) bool {
	a, b = slices.Clone(a), slices.Clone(b)
	slices.Sort(a)
	slices.Sort(b)
	return slices.Equal(a, b)
}

func judgeLookups(res *core.CaseResult, w *dbgWorld, id string, cs *clientSnap, r *rand.Rand) {
	type probe struct {
		kind string
		a, b int
		id   string
		u    uint64
	}
	var probes []probe
	for i, tx := range cs.txs {
		probes = append(probes, probe{kind: "TxIndex", id: tx.ID, a: i})
		probes = append(probes, probe{kind: "TxAtMachTime", u: cs.parsed[i].TimeSum})
		if !tx.IsQueued {
			probes = append(probes, probe{kind: "TxAtQueueTick", u: tx.QueueTick})
		}
		if i%3 == 0 {
			probes = append(probes, probe{kind: "HadErrSinceTx", a: i, b: 1 + r.IntN(10)})
		}
	}
	probes = append(probes, probe{kind: "TxIndex", id: "no-such-id", a: -1})
	got := make([]int, len(probes))
	gotB := make([]bool, len(probes))
	w.eval(func() {
		c := w.d.Clients[id]
		for i, p := range probes {
			switch p.kind {
			case "TxIndex":
				got[i] = c.TxIndex(p.id)
			case "TxAtMachTime":
				got[i] = c.TxAtMachTime(p.u)
			case "TxAtQueueTick":
				got[i] = c.TxAtQueueTick(p.u)
			case "HadErrSinceTx":
				gotB[i] = c.HadErrSinceTx(p.a, p.b)
			}
		}
	})
	for i, p := range probes {
		res.Evals++
		switch p.kind {
		case "TxIndex":
			want := -1
			for j, tx := range cs.txs {
				if tx.ID == p.id {
					want = j
					break
				}
			}
			if got[i] != want {
				res.Violate("C16/lookup/TxIndex", fmt.Sprintf("TxIndex(%s) = %d, a scan finds it at %d", p.id, got[i], want), nil)
				return
			}
		case "TxAtMachTime":
			// the first record whose time sum is the probed one
			want := -1
			for j, pp := range cs.parsed {
				if pp.TimeSum == p.u {
					want = j
					break
				}
			}
			if want >= 0 && got[i] != want {
				res.Violate("C16/lookup/TxAtMachTime", fmt.Sprintf("TxAtMachTime(%d) = %d (TimeSum %d), a linear scan finds the first record with that sum at %d", p.u, got[i], sumAt(cs, got[i]), want), nil)
				return
			}
		case "TxAtQueueTick":
			// the first record with QueueTick >= the probed one
			want := len(cs.txs) - 1
			for j, tx := range cs.txs {
				if tx.QueueTick >= p.u {
					want = j
					break
				}
			}
			if got[i] != want {
				res.Violate("C16/lookup/TxAtQueueTick", fmt.Sprintf("TxAtQueueTick(%d) = %d, the first record with a queue tick >= %d is #%d (queue ticks around: %s)", p.u, got[i], p.u, want,
					ticksAround(cs, want, got[i])), nil)
				return
			}
		case "HadErrSinceTx":
			want := false
			for _, e := range cs.errors {
				if e == p.a || (e < p.a && p.a-e < p.b) {
					want = true
				}
			}
			// the helper looks at the nearest error at or below tx
			if gotB[i] != want {
				res.Violate("C16/lookup/HadErrSinceTx", fmt.Sprintf("HadErrSinceTx(%d, %d) = %v, a scan over Errors=%v says %v", p.a, p.b, gotB[i], trunc(cs.errors), want), nil)
				return
			}
		}
		res.Key("lookup", p.kind)
	}
}

func sumAt(cs *clientSnap, i int) uint64 {
	if i < 0 || i >= len(cs.parsed) {
		return 0
	}
	return cs.parsed[i].TimeSum
}

func ticksAround(cs *clientSnap, a, b int) string {
	lo, hi := min(a, b)-2, max(a, b)+2
	var p []string
	for i := max(lo, 0); i <= hi && i < len(cs.txs); i++ {
		q := ""
		if cs.txs[i].IsQueued {
			q = "q"
		}
		p = append(p, fmt.Sprintf("#%d:%d%s", i, cs.txs[i].QueueTick, q))
	}
	return strings.Join(p, " ")
}
