// C05: handler lifecycle - documented order, visibility and veto rules.
package main

import (
	"fmt"
	"slices"
	"sort"
	"strings"

	am "github.com/pancsta/asyncmachine-go/pkg/machine"

	"verif/core"
	"verif/gen"
	"verif/rec"
	"verif/seq"
)

type eng struct{}

func (eng) Property() string { return "C05" }
func (eng) Level() string    { return "exploration" }
func (eng) Rule() string {
	return "cases: PRNG schemas of 2..8 states whose After∪Require must-precede graph is acyclic (edges only towards earlier names), " +
		"with long chains and non-adjacent constraints; 1-3 recording handler bindings (maps; one may use a StatePrefix) over all " +
		"handler names; histories of 6-14 mutations over arbitrary subsets; wide cases: 10-20 states with sparse Require/After relations, all added and then all removed in one mutation each. Each history runs without vetoes, then once per negotiation " +
		"position (binding, handler name) that fired with a veto there. Per transition the handler log is judged: phase order, " +
		"After/Require order inside each phase list, negotiation handlers see states-before, final handlers see the applied target, " +
		"nothing after a veto, every Exit/Enter/self/AnyEnter negotiation handler of an unvetoed accepted transition exactly once in the all-names binding (in auto transitions: the self handlers of the states that stay in the target), finals exactly once per changed state per binding and never for canceled transitions; the histories are rerun with a binding, bound first, that detaches itself inside one of its handler calls. Evaluation = one " +
		"transition with >=1 handler call; distinct non-trivial = distinct (schema, bindings, veto, history prefix)."
}
func (eng) Assumptions() []string {
	return []string{"ordering is asserted only between states both present in the same phase list",
		"Multi re-entry counts as changed; partially accepted auto transitions are judged against the re-resolved target",
		"no handler faults"}
}

func (eng) Cases(seed uint64, tier string) []core.CaseDesc {
	n := 400
	if tier == "thorough" {
		n = 150000
	}
	var cs []core.CaseDesc
	for i := 0; i < n; i++ {
		cs = append(cs, core.CaseDesc{ID: fmt.Sprintf("life/%05d", i), Kind: "life", Seed: seed*1000003 + uint64(i)})
	}
	cs = append(cs, core.CaseDesc{ID: "directed/after-nonadjacent", Kind: "directed", Seed: seed})
	nw := 60
	if tier == "thorough" {
		nw = 6000
	}
	for i := 0; i < nw; i++ {
		cs = append(cs, core.CaseDesc{ID: fmt.Sprintf("wide/%05d", i), Kind: "wide", Seed: seed*3000017 + uint64(i)})
	}
	return cs
}

type binding struct {
	names  []string
	prefix string
}

type veto map[string]bool

func vkey(b int, n string) string { return fmt.Sprintf("%d|%s", b, n) }

var phaseIdx = map[string]int{"exit": 0, "enter": 1, "pair": 2, "anyenter": 3, "end": 4, "state": 5, "anystate": 6}

func stateOf(name string) string {
	for _, suf := range []string{"Enter", "Exit", "State", "End"} {
		if strings.HasSuffix(name, suf) {
			return strings.TrimSuffix(name, suf)
		}
	}
	return ""
}

// leaverAt > 0: see run (one case runs per process at a time).
var leaverAt int

func run(res *core.CaseResult, spec gen.SchemaSpec, binds []binding, v veto, hist []gen.Op) *seq.Mach {
	mc, _ := seq.New(spec, seq.MachOpts{})
	m := mc.M
	if leaverAt > 0 {
		// a binding bound ahead of the judged ones that detaches itself inside
		// its leaverAt-th handler call: the bindings behind it still get the
		// very handler that is being dispatched
		var lid string
		n := 0
		lid, _ = rec.BindMaps(m, mc.HLog, 99, rec.AllHandlerNames(gen.Sorted(spec.Names)), func(c *rec.HCall, e *am.Event) bool {
			n++
			if n == leaverAt {
				_ = m.HandlersDetach(lid)
				res.Count("bindings_detached_mid_dispatch", 1)
			}
			return true
		})
	}
	for b, bd := range binds {
		bb := b
		var opts []am.BindOpts
		if bd.prefix != "" {
			opts = append(opts, am.BindOpts{StatePrefix: bd.prefix})
		}
		_, _ = rec.BindMaps(m, mc.HLog, b, bd.names, func(c *rec.HCall, e *am.Event) bool {
			return !v[vkey(bb, c.Name)]
		}, opts...)
	}
	defer m.Dispose()
	schema := m.Schema()
	names := m.StateNames()
	for _, op := range hist {
		rec.Apply(m, op)
	}
	txs := mc.Tr.Snapshot()
	calls := mc.HLog.Snapshot()
	vl := []string{}
	for k := range v {
		vl = append(vl, k)
	}
	sort.Strings(vl)
	for ti, tx := range txs {
		cs := rec.CallsOfTx(calls, tx.TxId)
		if len(cs) == 0 {
			continue
		}
		res.Evals++
		res.Key(spec.String(), len(binds), fmt.Sprint(vl), fmt.Sprint(hist), ti)
		ctx := func() any {
			var log []string
			for _, c := range cs {
				log = append(log, fmt.Sprintf("%d:%s=%v", c.Binding, c.Name, c.Ret))
			}
			return map[string]any{"schema": spec.String(), "veto": vl, "history": fmt.Sprint(hist), "tx": tx,
				"handler_log": log}
		}
		// phase order
		prev := -1
		for _, c := range cs {
			p := phaseIdx[c.Kind()]
			if p < prev {
				res.Violate("C05/phase-order", fmt.Sprintf("handler %s ran after a handler of a later phase", c.Name), ctx())
				break
			}
			prev = p
		}
		// visibility
		for _, c := range cs {
			if rec.IsNegotiation(c.Name) {
				if !rec.SameSet(c.Active, tx.StatesBef) || !rec.TimeEq(c.Time, tx.Before) {
					res.Violate("C05/negotiation-visibility", fmt.Sprintf(
						"negotiation handler %s saw active %v time %v, states before were %v time %v", c.Name, c.Active,
						c.Time, tx.StatesBef, tx.Before), ctx())
				}
			} else {
				if !rec.SameSet(c.Active, tx.ActiveEnd) || !rec.TimeEq(c.Time, tx.After) {
					res.Violate("C05/final-visibility", fmt.Sprintf(
						"final handler %s saw active %v time %v, the applied target is %v time %v", c.Name, c.Active,
						c.Time, tx.ActiveEnd, tx.After), ctx())
				}
			}
		}
		// veto
		vetoIdx := -1
		for i, c := range cs {
			if rec.IsNegotiation(c.Name) && !c.Ret {
				// a veto of a called Auto state's own handler in an auto
				// transition is a partial rejection, not a cancel
				st := stateOf(c.Name)
				if st == "" && c.Kind() == "pair" {
					st = c.Name[len(c.Name)-1:]
				}
				partial := tx.IsAuto && schema[st].Auto && c.Kind() != "anyenter"
				if !partial {
					vetoIdx = i
					break
				}
			}
		}
		if vetoIdx >= 0 {
			res.Count("vetoed_transitions", 1)
			if vetoIdx != len(cs)-1 {
				res.Violate("C05/handler-after-veto", fmt.Sprintf("handler %s ran after %s returned false",
					cs[vetoIdx+1].Name, cs[vetoIdx].Name), ctx())
			}
			if tx.Accepted {
				res.Violate("C05/accepted-after-veto", "the transition was accepted although a negotiation handler returned false", ctx())
			}
			if !rec.TimeEq(tx.Before, tx.After) {
				res.Violate("C05/ticks-after-veto", "ticks changed although a negotiation handler returned false", ctx())
			}
		}
		// negotiation handlers of an unvetoed transition: binding 0 binds every
		// name, so each expected one has to be in its log
		anyFalse := false
		for _, c := range cs {
			if rec.IsNegotiation(c.Name) && !c.Ret {
				anyFalse = true
			}
		}
		if !anyFalse && tx.Accepted && !tx.IsAuto && !tx.Broken && len(binds) > 0 && binds[0].prefix == "" {
			got := map[string]int{}
			for _, c := range cs {
				if c.Binding == 0 && rec.IsNegotiation(c.Name) {
					got[c.Name]++
				}
			}
			var want []string
			for _, s := range tx.Exits {
				want = append(want, s+"Exit")
			}
			for _, s := range tx.Enters {
				want = append(want, s+"Enter")
			}
			if tx.Type != "remove" {
				for _, s := range tx.Target {
					if slices.Contains(tx.StatesBef, s) {
						want = append(want, s+s)
					}
				}
			}
			want = append(want, "AnyEnter")
			for _, hn := range want {
				if !slices.Contains(binds[0].names, hn) {
					continue
				}
				if got[hn] != 1 {
					kind := rec.HandlerKind(hn)
					if kind == "pair" {
						kind = "self"
					}
					res.Violate("C05/negotiation-count/"+kind, fmt.Sprintf("negotiation handler %s of binding 0 ran %d times in an unvetoed accepted transition (exits %v, enters %v, target %v, active before %v)",
						hn, got[hn], tx.Exits, tx.Enters, tx.Target, tx.StatesBef), ctx())
				}
			}
			res.Count("negotiation_sets_checked", 1)
		}
		// auto transitions: a self handler vetoing its own Auto state rejects
		// only that state; the self handlers of the other states that stay in
		// the target still have to run
		if tx.IsAuto && tx.Accepted && !tx.Broken && vetoIdx < 0 && len(binds) > 0 && binds[0].prefix == "" {
			onlySelf := true
			for _, c := range cs {
				if rec.IsNegotiation(c.Name) && !c.Ret && !(c.Kind() == "pair" && len(c.Name) == 2 && c.Name[0] == c.Name[1]) {
					onlySelf = false
				}
			}
			if onlySelf {
				got := map[string]int{}
				for _, c := range cs {
					if c.Binding == 0 {
						got[c.Name]++
					}
				}
				// (only states every negotiation handler saw in the target: the
				// re-resolution after the negotiation may bring back states the
				// handlers saw exiting)
				seenByAll := func(st string) bool {
					for _, c := range cs {
						if rec.IsNegotiation(c.Name) && !slices.Contains(c.Target, st) {
							return false
						}
					}
					return true
				}
				for _, st := range tx.Target {
					hn := st + st
					if !slices.Contains(tx.StatesBef, st) || !slices.Contains(binds[0].names, hn) || !seenByAll(st) {
						continue
					}
					if got[hn] != 1 {
						res.Violate("C05/negotiation-count/self/auto-transition", fmt.Sprintf(
							"self handler %s of binding 0 ran %d times in an accepted auto transition that kept %s in its target (target %v, active before %v)",
							hn, got[hn], st, tx.Target, tx.StatesBef), ctx())
					}
				}
				res.Count("auto_self_sets_checked", 1)
			}
		}
		// finals
		finals := map[string]int{}
		for _, c := range cs {
			if k := c.Kind(); k == "state" || k == "end" {
				finals[vkey(c.Binding, c.Name)]++
			}
		}
		if !tx.Accepted || tx.IsCheck {
			if len(finals) > 0 {
				res.Violate("C05/finals-on-canceled", "final handlers ran for a canceled or check transition", ctx())
			}
		} else {
			for i, n := range names {
				d := tx.After[i] - tx.Before[i]
				var want string
				switch {
				case d == 0:
					want = ""
				case tx.After[i]%2 == 1:
					want = n + "State"
				default:
					want = n + "End"
				}
				for b, bd := range binds {
					for _, hn := range []string{n + "State", n + "End"} {
						full := bd.prefix + hn
						bound := slices.Contains(bd.names, hn) && strings.HasPrefix(hn, bd.prefix)
						// with a prefix the machine trims it from the event
						// name before the lookup
						if bd.prefix != "" {
							bound = strings.HasPrefix(hn, bd.prefix) &&
								slices.Contains(bd.names, strings.TrimPrefix(hn, bd.prefix))
							full = bd.prefix + strings.TrimPrefix(hn, bd.prefix)
						}
						got := finals[vkey(b, full)]
						exp := 0
						if bound && hn == want {
							exp = 1
						}
						if got != exp {
							sig := "C05/finals-count"
							if exp == 0 {
								sig = "C05/final-for-unchanged-state"
							} else if got == 0 {
								sig = "C05/final-missing"
							} else {
								sig = "C05/final-twice"
							}
							res.Violate(sig, fmt.Sprintf("binding %d handler %s ran %d times, expected %d (tick delta of %s = %d)",
								b, hn, got, exp, n, d), ctx())
						}
					}
				}
			}
		}
		// After / Require order inside each phase list (binding 0 view)
		for _, ph := range []string{"exit", "enter", "end", "state"} {
			var order []string
			listAt := map[string][]string{}
			var first []string
			seen := map[string]bool{}
			for _, c := range cs {
				if c.Kind() == ph {
					st := stateOf(c.Name)
					if !seen[st] {
						seen[st] = true
						order = append(order, st)
						// the list the resolver sorted: the target (enter/state)
						// or the exits list (exit/end)
						if ph == "enter" || ph == "state" {
							// as seen by the first handler of this phase (partial
							// auto rejection edits the target in place later)
							if first == nil {
								first = c.Target
							}
							listAt[st] = first
						} else {
							listAt[st] = tx.Exits
						}
					}
				}
			}
			for i := 0; i < len(order); i++ {
				for j := i + 1; j < len(order); j++ {
					x, y := order[i], order[j] // x ran before y
					rel := ""
					if slices.Contains(schema[x].After, y) {
						rel = "After"
					} else if slices.Contains(schema[x].Require, y) {
						rel = "Require"
					}
					if rel == "" {
						continue
					}
					// classifier: were the two neighbours in the sorted list?
					// (the stable sort only ever orders neighbours)
					lst := listAt[y]
					if ph == "exit" || ph == "end" {
						// binding 0 binds every handler name, so the observed
						// order is the exits list as it was sorted at call time
						lst = order
					}
					ix, iy := slices.Index(lst, x), slices.Index(lst, y)
					cls := "pair-not-in-sorted-list"
					if ix >= 0 && iy >= 0 {
						if ix-iy == 1 || iy-ix == 1 {
							cls = "adjacent-in-sorted-list"
						} else {
							cls = "non-adjacent-in-sorted-list"
						}
					}
					res.Violate("C05/order/"+strings.ToLower(rel)+"/"+cls, fmt.Sprintf(
						"%s handlers: %s ran before %s although %s lists %s in %s (order %v, sorted list %v)", ph, x, y, x, y,
						rel, order, lst), ctx())
				}
			}
		}
	}
	res.Count("handler_calls", int64(len(calls)))
	res.Count("transitions", int64(len(txs)))
	if mc.HLog.Overlaps.Load() > 0 {
		res.Violate("C05/handler-overlap", "two handlers overlapped", nil)
	}
	return mc
}

func (eng) Run(c core.CaseDesc, tier string) *core.CaseResult {
	res := &core.CaseResult{Case: c}
	if c.Kind == "directed" {
		spec := gen.SchemaSpec{Names: []string{"A", "B", "C"}, States: map[string]gen.StateSpec{
			"A": {After: []string{"C"}}, "B": {}, "C": {}}}
		run(res, spec, []binding{{names: rec.AllHandlerNames(spec.Names)}}, veto{},
			[]gen.Op{{Kind: "add", States: []string{"A", "B", "C"}}})
		return res
	}
	if c.Kind == "wide" {
		// many states in one sorted list (the sort routines change behaviour with
		// the length of their input): everything is added, then removed, at once
		r := gen.NewRand(c.Seed, 55)
		spec := gen.RandSchema(r, gen.SchemaOpts{MinStates: 10, MaxStates: 20, AcyclicOrder: true,
			PRequire: r.Float64() * 0.08, PAfter: r.Float64() * 0.06})
		all := rec.AllHandlerNames(gen.Sorted(spec.Names))
		var hnames []string
		for _, n := range all {
			if rec.HandlerKind(n) != "pair" {
				hnames = append(hnames, n)
			}
		}
		order := append([]string(nil), spec.Names...)
		r.Shuffle(len(order), func(i, j int) { order[i], order[j] = order[j], order[i] })
		hist := []gen.Op{{Kind: "add", States: order}, {Kind: "remove", States: order}}
		run(res, spec, []binding{{names: hnames}}, veto{}, hist)
		res.Count("wide_sorted_lists", 2)
		return res
	}
	r := gen.NewRand(c.Seed, 5)
	maxS := 5
	if tier == "thorough" {
		maxS = 8
	}
	spec := gen.RandSchema(r, gen.SchemaOpts{MinStates: 2, MaxStates: maxS, AcyclicOrder: true,
		PRequire: r.Float64() * 0.3, PAdd: r.Float64() * 0.25, PRemove: r.Float64() * 0.25,
		PAfter: r.Float64() * 0.5, PAuto: r.Float64() * 0.2, PMulti: r.Float64() * 0.3})
	all := rec.AllHandlerNames(gen.Sorted(spec.Names))
	nb := 1 + r.IntN(3)
	var binds []binding
	for b := 0; b < nb; b++ {
		bd := binding{}
		for _, n := range all {
			if b == 0 || r.IntN(2) == 0 {
				bd.names = append(bd.names, n)
			}
		}
		binds = append(binds, bd)
	}
	hist := gen.RandHistory(r, spec.Names, []string{"add", "remove", "set", "toggle", "add", "canadd"}, 6+r.IntN(9))
	base := run(res, spec, binds, veto{}, hist)
	pos := map[string]bool{}
	for _, hc := range base.HLog.Snapshot() {
		if rec.IsNegotiation(hc.Name) {
			pos[vkey(hc.Binding, hc.Name)] = true
		}
	}
	var pl []string
	for p := range pos {
		pl = append(pl, p)
	}
	sort.Strings(pl)
	for _, p := range pl {
		run(res, spec, binds, veto{p: true}, hist)
		res.Count("single_veto_runs", 1)
	}
	// the unvetoed history and a few vetoed ones once more, with a binding that leaves mid-dispatch
	leaverAt = 1 + r.IntN(25)
	run(res, spec, binds, veto{}, hist)
	for k := 0; k < 3 && len(pl) > 0; k++ {
		leaverAt = 1 + r.IntN(25)
		run(res, spec, binds, veto{pl[r.IntN(len(pl))]: true}, hist)
	}
	leaverAt = 0
	if strings.HasSuffix(c.ID, "/00000") {
		res.Sample = map[string]any{"schema": spec.String(), "bindings": nb, "history": fmt.Sprint(hist), "veto_positions": pl}
	}
	return res
}

func main() { core.Main(eng{}) }
