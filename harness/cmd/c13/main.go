// C13: Dispose releases every waiter and is safe from anywhere.
package main

import (
	"context"
	"fmt"
	"math/rand/v2"
	"runtime"
	"strings"
	"sync"
	"sync/atomic"
	"time"

	amhelp "github.com/pancsta/asyncmachine-go/pkg/helpers"
	am "github.com/pancsta/asyncmachine-go/pkg/machine"
	ssam "github.com/pancsta/asyncmachine-go/pkg/states"

	"verif/core"
	"verif/gen"
	"verif/rec"
)

type eng struct{}

func (eng) Property() string { return "C13" }
func (eng) Level() string    { return "exploration" }
func (eng) Rule() string {
	return "cases: machines with/without handlers, 0-20 outstanding subscriptions of every kind (When, WhenNot, WhenTime, WhenTicks, " +
		"WhenQuery, WhenArgs, WhenQueue, WhenErr) and state contexts, 0-3 OnDispose handlers; disposal by Dispose, double Dispose, " +
		"concurrent Dispose, parent-ctx cancel (machines with a handler loop), amhelp.Dispose with DisposedHandlers; from outside, from a " +
		"negotiation handler, a final handler, an Eval body; landing points chosen with the dispose.* gates and handler gates (idle, queue " +
		"running, mid-negotiation, mid-final, during Eval, during another dispose) with 0-4 concurrent mutators. After WhenDisposed closes: " +
		"every earlier channel/ctx closed, each dispose handler ran exactly once, no handlerLoop goroutine left (goroutine dump), every " +
		"later public call returns a neutral value without panicking or blocking, and every channel / state context handed to the subscribers " +
		"racing the disposal is closed; (latesub) a WhenTime/WhenTicks/WhenQuery call parked at sub.checked (after its disposed check) while the " +
		"machine is disposed completely returns a closed channel (also WhenQueue); (disphandler) a registered dispose handler calls one of 12 " +
		"methods of its machine; (timeoutdisp) a handler overruns HandlerTimeout while a graceful Dispose waits; (faultdisp) the same after one handler (AEnter or AState) " +
		"panicked, overran HandlerTimeout and returned late, or overran and then panicked, disposed while the machine waits for the " +
		"handler's deadline or after it forked a new loop. Evaluation = one post-dispose assertion; distinct " +
		"non-trivial = distinct (dispose mode, origin, landing point, handlers, #subscriptions>0)."
}
func (eng) Assumptions() []string {
	return []string{"DisposeForce only on idle machines (documented to panic otherwise); what subscribers racing a DisposeForce are handed is not judged (it skips their locks)",
		"a machine without a handler loop is not disposed by parent-ctx cancelation (no goroutine watches it: recorded as a known finding by the case noloop-parentctx); the PRNG scenarios use that mode only with handlers bound",
		"WhenDisposed still open after the watchdog is a violation only when the goroutine dump shows no doDispose frame (stable), else inconclusive"}
}

func (eng) Cases(seed uint64, tier string) []core.CaseDesc {
	n := 300
	if tier == "thorough" {
		n = 10000
	}
	var cs []core.CaseDesc
	for i := 0; i < 8; i++ {
		cs = append(cs, core.CaseDesc{ID: fmt.Sprintf("subswin/%02d", i), Kind: "subswin", Seed: seed*1000003 + uint64(i)})
	}
	for i := 0; i < n; i++ {
		cs = append(cs, core.CaseDesc{ID: fmt.Sprintf("disp/%05d", i), Kind: "disp", Seed: seed*1000003 + uint64(i)})
	}
	for i := 0; i < 8; i++ {
		cs = append(cs, core.CaseDesc{ID: fmt.Sprintf("latesub/%02d", i), Kind: "latesub", Seed: uint64(i)})
	}
	// a dispose handler that uses the machine; a handler timeout firing while the
	// machine is being disposed; a machine without handlers under a parent ctx
	for i := 0; i < 12; i++ {
		cs = append(cs, core.CaseDesc{ID: fmt.Sprintf("disphandler/%02d", i), Kind: "disphandler", Seed: uint64(i)})
	}
	for i := 0; i < 2; i++ {
		cs = append(cs, core.CaseDesc{ID: fmt.Sprintf("timeoutdisp/%02d", i), Kind: "timeoutdisp", Seed: uint64(i)})
	}
	cs = append(cs, core.CaseDesc{ID: "noloop-parentctx/00", Kind: "noloop-parentctx", Seed: 0})
	nf := 36
	if tier == "thorough" {
		nf = 720
	}
	for i := 0; i < nf; i++ {
		cs = append(cs, core.CaseDesc{ID: fmt.Sprintf("faultdisp/%04d", i), Kind: "faultdisp", Seed: seed*5000011 + uint64(i)})
	}
	return cs
}

func (eng) CaseTimeout(string) time.Duration { return 90 * time.Second }

// cases mostly sleep inside Dispose's grace periods
func (eng) Children(string) int { return 48 }

func (eng) Hang(c core.CaseDesc, dump string) *core.Violation {
	blocked, active := core.StableBlock(dump)
	if len(blocked) > 0 && len(active) == 0 {
		fn := blocked[0]
		if i := strings.LastIndex(fn, "."); i > 0 {
			fn = fn[i+1:]
		}
		return &core.Violation{Sig: "C13/blocked/" + fn, What: fmt.Sprintf(
			"a call on the machine never returned: goroutines parked inside the machine (%v), nothing running", blocked), Witness: dump}
	}
	return nil
}

type subRec struct {
	kind string
	ch   <-chan struct{}
	ctx  context.Context
}

func isClosed(ch <-chan struct{}) bool {
	select {
	case <-ch:
		return true
	default:
		return false
	}
}

func countLoops() int {
	buf := make([]byte, 4<<20)
	n := runtime.Stack(buf, true)
	return strings.Count(string(buf[:n]), "machine.(*Machine).handlerLoop(")
}

type dispHandlers struct {
	*ssam.DisposedHandlers
}

// runSubsWindow: Dispose lands after a transition was applied and before its
// matched subscriptions are closed (the processing goroutine is parked at
// pq.before-subs until the disposing flag is up). Every channel - matched in
// that transition or not - has to be closed once the disposal completed.
func runSubsWindow(res *core.CaseResult, c core.CaseDesc) {
	r := gen.NewRand(c.Seed, 131)
	m := am.New(context.Background(), am.Schema{"A": {}, "B": {}, "C": {Multi: true}}, &am.Opts{Id: "c13sw", DontLogId: true, DontLogStackTrace: true})
	m.DisposeTimeout = 3 * time.Second
	type sub struct {
		name string
		ch   <-chan struct{}
	}
	subs := []sub{
		{"When[A]", m.When1("A", nil)},
		{"WhenTime1[A>=1]", m.WhenTime1("A", 1, nil)},
		{"WhenTicks[A,1]", m.WhenTicks("A", 1, nil)},
		{"WhenQuery[A active]", m.WhenQuery(func(cl am.Clock) bool { return am.IsActiveTick(cl["A"]) }, nil)},
		{"When[B] (not matched)", m.When1("B", nil)},
		{"WhenNot[A] later", nil},
	}
	if r.IntN(2) == 0 {
		subs = append(subs, sub{"WhenArgs[A]", m.WhenArgs("A", am.A{"k": 1}, nil)})
	}
	am.VerifHookClear()
	defer am.VerifHookClear()
	parked := make(chan struct{}, 1)
	gate := make(chan struct{})
	flagged := make(chan struct{}, 1)
	var once, once2 sync.Once
	am.VerifHookSet("pq.before-subs", func() {
		once.Do(func() {
			parked <- struct{}{}
			select {
			case <-gate:
			case <-time.After(20 * time.Second):
			}
		})
	})
	am.VerifHookSet("dispose.flagged", func() { once2.Do(func() { flagged <- struct{}{} }) })
	go m.Add1("A", am.A{"k": 1})
	select {
	case <-parked:
	case <-time.After(10 * time.Second):
		res.Inconclusive = "pq.before-subs not reached"
		close(gate)
		return
	}
	m.Dispose()
	select {
	case <-flagged:
	case <-time.After(10 * time.Second):
		res.Inconclusive = "dispose.flagged not reached"
		close(gate)
		return
	}
	close(gate)
	select {
	case <-m.WhenDisposed():
	case <-time.After(20 * time.Second):
		res.Inconclusive = "the disposal did not complete"
		return
	}
	// let the parked queue goroutine finish its loop
	time.Sleep(20 * time.Millisecond)
	for _, s := range subs {
		if s.ch == nil {
			continue
		}
		res.Evals++
		if !isClosed(s.ch) {
			res.Violate("C13/open-after-dispose/matched-in-flight", fmt.Sprintf(
				"%s is still open after Dispose completed (the disposal landed between the transition that activated A and the closing of its matched subscriptions)", s.name), nil)
			return
		}
	}
	res.Key("subswin", len(subs))
}

// runDispHandler: a registered dispose handler uses the machine it is
// registered on (reads it, registers another handler, subscribes). The
// disposal has to complete all the same.
func runDispHandler(res *core.CaseResult, c core.CaseDesc) {
	type call struct {
		name string
		fn   func(m *am.Machine)
	}
	calls := []call{
		{"QueueTick", func(m *am.Machine) { m.QueueTick() }},
		{"Tracers", func(m *am.Machine) { m.Tracers() }},
		{"Handlers", func(m *am.Machine) { m.Handlers() }},
		{"Export", func(m *am.Machine) { _, _, _ = m.Export() }},
		{"OnDispose", func(m *am.Machine) { m.OnDispose(func(string, context.Context) {}) }},
		{"WhenQueue", func(m *am.Machine) { m.WhenQueue(am.Result(100)) }},
		{"Is1", func(m *am.Machine) { m.Is1("A") }},
		{"Time", func(m *am.Machine) { m.Time(nil) }},
		{"String", func(m *am.Machine) { _ = m.String() }},
		{"Add1", func(m *am.Machine) { m.Add1("A", nil) }},
		{"StateNames", func(m *am.Machine) { _ = m.StateNames() }},
		{"When1", func(m *am.Machine) { _ = m.When1("A", nil) }},
	}
	cl := calls[int(c.Seed)%len(calls)]
	m := am.New(context.Background(), am.Schema{"A": {}, "B": {}}, &am.Opts{Id: "c13dh", DontLogId: true, DontLogStackTrace: true})
	m.DisposeTimeout = 100 * time.Millisecond
	m.Add1("A", nil)
	var ran, returned atomic.Bool
	m.OnDispose(func(string, context.Context) {
		ran.Store(true)
		cl.fn(m)
		returned.Store(true)
	})
	go m.Dispose()
	res.Evals++
	select {
	case <-m.WhenDisposed():
	case <-time.After(15 * time.Second):
		dump := core.StackAll()
		blocked, active := core.StableBlock(dump)
		if len(blocked) > 0 && len(active) == 0 || ran.Load() && !returned.Load() {
			res.Violate("C13/blocked/dispose-handler-calls/"+cl.name, fmt.Sprintf(
				"a registered dispose handler called %s on its machine: it %s, WhenDisposed is still open 15s after Dispose (the handler runs under the locks doDispose holds)",
				cl.name, map[bool]string{true: "returned", false: "never returned"}[returned.Load()]), map[string]any{"dump": dump})
		} else {
			res.Inconclusive = "the disposal did not complete"
		}
		return
	}
	if !ran.Load() {
		res.Violate("C13/dispose-handler-runs=0/disphandler", "the registered dispose handler did not run", nil)
	}
	res.Key("disphandler", cl.name)
}

// runTimeoutDuringDispose: a handler overruns HandlerTimeout while a graceful
// Dispose is waiting for the queue: the caller of the mutation must get its
// result, not a panic, and the disposal completes.
func runTimeoutDuringDispose(res *core.CaseResult, c core.CaseDesc) {
	m := am.New(context.Background(), am.Schema{"A": {}, "B": {}}, &am.Opts{Id: "c13td", DontLogId: true, DontLogStackTrace: true,
		HandlerTimeout: 300 * time.Millisecond})
	m.DisposeTimeout = 100 * time.Millisecond
	started := make(chan struct{})
	_, _ = m.HandlersBindMaps(nil, map[string]am.HandlerFinal{"AState": func(*am.Event) {
		close(started)
		time.Sleep(1200 * time.Millisecond)
	}})
	var panicked atomic.Value
	done := make(chan struct{})
	go func() {
		defer close(done)
		defer func() {
			if r := recover(); r != nil {
				panicked.Store(fmt.Sprint(r))
			}
		}()
		m.Add1("A", nil)
	}()
	select {
	case <-started:
	case <-time.After(10 * time.Second):
		res.Inconclusive = "the handler did not start"
		return
	}
	// the disposing flag lands ~150ms into the handler, the drain timeout ~100ms
	// later, the handler timeout at 300ms
	time.Sleep(time.Duration(100+50*c.Seed) * time.Millisecond)
	m.Dispose()
	res.Evals++
	select {
	case <-done:
	case <-time.After(15 * time.Second):
		res.Inconclusive = "Add1 did not return"
		return
	}
	if p := panicked.Load(); p != nil {
		res.Violate("C13/during/panic/Add1/handler-timeout-while-disposing", fmt.Sprintf(
			"Add1 panicked with %q: its handler overran HandlerTimeout while a graceful Dispose was in progress", p), nil)
		return
	}
	select {
	case <-m.WhenDisposed():
	case <-time.After(15 * time.Second):
		res.Inconclusive = "the disposal did not complete"
		return
	}
	res.Key("timeoutdisp", c.Seed)
}

// runNoLoopParentCtx: a machine that never had handlers bound, under a parent
// context that is canceled.
func runNoLoopParentCtx(res *core.CaseResult, c core.CaseDesc) {
	parent, cancel := context.WithCancel(context.Background())
	m := am.New(parent, am.Schema{"A": {}, "B": {}}, &am.Opts{Id: "c13nl", DontLogId: true, DontLogStackTrace: true})
	defer m.Dispose()
	m.Add1("A", nil)
	w := m.When1("B", nil)
	cancel()
	res.Evals++
	select {
	case <-m.WhenDisposed():
	case <-time.After(5 * time.Second):
		res.Violate("C13/whendisposed-open/parentctx/machine-without-handlers", fmt.Sprintf(
			"5s after the parent context was canceled WhenDisposed is open, a When channel made before is open=%v and Add1 still returns %s: nothing watches the parent context of a machine without a handler loop",
			!isClosed(w), rec.ResStr(m.Add1("B", nil))), nil)
		return
	}
	res.Key("noloop-parentctx")
}

// runLateSub: a WhenTime / WhenTicks / WhenQuery call that has passed its
// disposed check is parked (sub.checked) while the machine is disposed
// completely, and goes on afterwards. The channel it returns has to be closed.
func runLateSub(res *core.CaseResult, c core.CaseDesc) {
	api := []string{"WhenTime1", "WhenTicks", "WhenQuery", "WhenQueue"}[c.Seed%4]
	mode := []string{"dispose", "parentctx"}[(c.Seed/4)%2]
	parent, cancel := context.WithCancel(context.Background())
	defer cancel()
	m := am.New(parent, am.Schema{"A": {}, "B": {}}, &am.Opts{Id: "c13ls", DontLogId: true, DontLogStackTrace: true})
	m.DisposeTimeout = 100 * time.Millisecond
	// parent-ctx cancelation is only watched by a machine with a handler loop
	_, _ = m.HandlersBindMaps(nil, map[string]am.HandlerFinal{"BState": func(*am.Event) {}})
	m.Add1("B", nil)
	am.VerifHookClear()
	defer am.VerifHookClear()
	gate := make(chan struct{})
	reached := make(chan struct{})
	var once sync.Once
	am.VerifHookSet("sub.checked", func() {
		once.Do(func() {
			close(reached)
			select {
			case <-gate:
			case <-time.After(30 * time.Second):
			}
		})
	})
	got := make(chan (<-chan struct{}), 1)
	go func() {
		switch api {
		case "WhenTime1":
			got <- m.WhenTime1("A", 1<<40, nil)
		case "WhenTicks":
			got <- m.WhenTicks("A", 1<<30, nil)
		case "WhenQuery":
			got <- m.WhenQuery(func(am.Clock) bool { return false }, nil)
		case "WhenQueue":
			got <- m.WhenQueue(am.Result(1 << 40))
		}
	}()
	select {
	case <-reached:
	case <-time.After(10 * time.Second):
		res.Inconclusive = "sub.checked not reached"
		close(gate)
		m.Dispose()
		return
	}
	if mode == "dispose" {
		m.Dispose()
	} else {
		cancel()
	}
	select {
	case <-m.WhenDisposed():
	case <-time.After(25 * time.Second):
		res.Inconclusive = "the disposal did not complete"
		close(gate)
		return
	}
	close(gate)
	res.Evals++
	res.Key("latesub", api, mode)
	var ch <-chan struct{}
	select {
	case ch = <-got:
	case <-time.After(10 * time.Second):
		res.Violate("C13/after/blocked/"+api+"/call-in-flight-at-dispose", api+" in flight when the machine was disposed did not return within 10s",
			map[string]any{"dump": core.StackAll()})
		return
	}
	if !isClosed(ch) {
		res.Violate("C13/open-after-dispose/call-in-flight-at-dispose/"+api, fmt.Sprintf(
			"%s had passed its disposed check when the machine was disposed (%s); the channel it returned after WhenDisposed closed is open and nothing will ever close it", api, mode), nil)
	}
}

// runFaultDispose: the machine is disposed after one of its handlers faulted
// (panic, overrun of HandlerTimeout with a late return, overrun followed by a
// panic), while it still waits for the handler's deadline or after it forked a
// new handler loop. Disposal has to complete, close the earlier channels,
// leave no handler loop goroutine behind and make later calls return.
func runFaultDispose(res *core.CaseResult, c core.CaseDesc) {
	i := int(c.Seed % 36)
	r := gen.NewRand(c.Seed, 137)
	fault := []string{"overrun-return", "overrun-panic", "panic"}[i%3]
	where := []string{"AState", "AEnter"}[(i/3)%2]
	deadline := []time.Duration{100 * time.Millisecond, 2 * time.Second}[(i/6)%2]
	mode := []string{"dispose", "double", "parentctx"}[(i/12)%3]
	wait := time.Duration(20+r.IntN(280)) * time.Millisecond
	block := 120 * time.Millisecond
	parent, cancel := context.WithCancel(context.Background())
	defer cancel()
	base := countLoops()
	m := am.New(parent, am.Schema{"A": {}, "B": {}}, &am.Opts{Id: "c13fd", DontLogId: true, DontLogStackTrace: true,
		HandlerTimeout: 30 * time.Millisecond, HandlerDeadline: deadline, HandlerBackoff: time.Millisecond})
	m.DisposeTimeout = 200 * time.Millisecond
	started := make(chan struct{})
	var once sync.Once
	body := func() {
		first := false
		once.Do(func() { first = true; close(started) })
		if !first {
			return
		}
		if fault != "panic" {
			time.Sleep(block)
		}
		if fault != "overrun-return" {
			panic("c13 fault")
		}
	}
	neg := map[string]am.HandlerNegotiation{}
	fin := map[string]am.HandlerFinal{"BState": func(*am.Event) {}}
	if where == "AEnter" {
		neg["AEnter"] = func(*am.Event) bool { body(); return true }
	} else {
		fin["AState"] = func(*am.Event) { body() }
	}
	_, _ = m.HandlersBindMaps(neg, fin)
	ctxInfo := map[string]any{"fault": fault, "handler": where, "HandlerTimeout": "30ms", "HandlerDeadline": deadline.String(),
		"dispose_after": (block + wait).String(), "mode": mode}
	whenB := m.When1("B", nil)
	sctx := m.NewStateCtx("A")
	go m.Add1("A", nil)
	select {
	case <-started:
	case <-time.After(10 * time.Second):
		res.Inconclusive = "the faulting handler never started"
		m.Dispose()
		return
	}
	time.Sleep(block + wait)
	switch mode {
	case "dispose":
		m.Dispose()
	case "double":
		m.Dispose()
		m.Dispose()
	case "parentctx":
		cancel()
	}
	res.Evals++
	select {
	case <-m.WhenDisposed():
	case <-time.After(25 * time.Second):
		dump := core.StackAll()
		if strings.Contains(dump, "doDispose") {
			res.Inconclusive = "disposal still running after 25s"
		} else {
			res.Violate("C13/whendisposed-open/after-handler-fault/"+fault, "WhenDisposed still open 25s after the disposal of a machine whose handler had faulted, no doDispose frame left",
				map[string]any{"ctx": ctxInfo, "dump": dump})
		}
		return
	}
	res.Evals++
	if !isClosed(whenB) {
		res.Violate("C13/open-after-dispose/after-handler-fault", "a When channel made before the fault is still open after the disposal completed", ctxInfo)
	}
	_ = sctx
	// later calls return
	ret := make(chan am.Result, 1)
	go func() { ret <- m.Add1("B", nil) }()
	res.Evals++
	select {
	case rs := <-ret:
		if rs != am.Canceled {
			res.Violate("C13/after/not-neutral/Add1/after-handler-fault", fmt.Sprintf("Add1 on the disposed machine returned %s", rec.ResStr(rs)), ctxInfo)
		}
	case <-time.After(10 * time.Second):
		res.Violate("C13/after/blocked/Add1/after-handler-fault", "Add1 on the disposed machine did not return within 10s", map[string]any{"ctx": ctxInfo, "dump": core.StackAll()})
		return
	}
	// handler loops gone (the overrunning handler itself returns after 120ms)
	res.Evals++
	gone := false
	for k := 0; k < 500; k++ {
		if countLoops() <= base {
			gone = true
			break
		}
		time.Sleep(10 * time.Millisecond)
	}
	if !gone {
		dump := core.StackAll()
		state := "running"
		for _, g := range strings.Split(dump, "\n\n") {
			if strings.Contains(g, "machine.(*Machine).handlerLoop") {
				if k := strings.Index(g, "["); k >= 0 {
					if e := strings.Index(g[k:], "]"); e > 0 {
						state = strings.Split(g[k+1:k+e], ",")[0]
					}
				}
			}
		}
		res.Violate("C13/handler-goroutine-left/after-handler-fault/"+fault, fmt.Sprintf(
			"%d handlerLoop goroutines remain 5s after WhenDisposed closed (baseline %d; goroutine state: %s)", countLoops(), base, state),
			map[string]any{"ctx": ctxInfo, "dump": dump})
	}
	res.Count("disposals_after_handler_fault", 1)
	res.Key("faultdisp", fault, where, deadline, mode)
}

func (eng) Run(c core.CaseDesc, tier string) *core.CaseResult {
	res := &core.CaseResult{Case: c}
	if c.Kind == "subswin" {
		runSubsWindow(res, c)
		return res
	}
	if c.Kind == "faultdisp" {
		runFaultDispose(res, c)
		return res
	}
	if c.Kind == "latesub" {
		runLateSub(res, c)
		return res
	}
	if c.Kind == "disphandler" {
		runDispHandler(res, c)
		return res
	}
	if c.Kind == "timeoutdisp" {
		runTimeoutDuringDispose(res, c)
		return res
	}
	if c.Kind == "noloop-parentctx" {
		runNoLoopParentCtx(res, c)
		return res
	}
	r := gen.NewRand(c.Seed, 13)
	modes := []string{"dispose", "double", "concurrent", "parentctx", "amhelp", "force", "mixin-parentctx"}
	mode := modes[r.IntN(len(modes))]
	// the Disposed mix-in with its handlers: disposed through amhelp.Dispose, or
	// by the cancelation of the parent context
	mixin := mode == "amhelp" || mode == "mixin-parentctx"
	origins := []string{"outside", "negotiation", "final", "eval"}
	origin := origins[r.IntN(len(origins))]
	landings := []string{"idle", "queue-running", "mid-negotiation", "mid-final", "during-eval", "handler-parked-long", "eval-queued",
		"handler-parked-long", "eval-queued", "dispose.flagged", "dispose.drained",
		"dispose.locked", "dispose.subs-closed", "dispose.before-handlers"}
	landing := landings[r.IntN(len(landings))]
	withHandlers := r.IntN(3) > 0
	if landing == "handler-parked-long" || landing == "eval-queued" {
		withHandlers = true
		origin = "outside"
		if mode == "force" || mode == "parentctx" || mixin {
			mode = "dispose"
			mixin = false
		}
	}
	if mode == "parentctx" || origin == "negotiation" || origin == "final" || landing == "mid-negotiation" || landing == "mid-final" || mixin {
		withHandlers = true
	}
	if mode == "force" {
		origin, landing = "outside", "idle"
	}
	if origin != "outside" {
		// the origin decides where it lands
		landing = "from-" + origin
	}
	nSubs := r.IntN(21)
	nDisp := r.IntN(4)
	nMut := r.IntN(5)
	if landing == "idle" || mode == "force" || mode == "mixin-parentctx" {
		// (mixin-parentctx: the Disposing mutation the handler loop issues after
		// the cancelation has a grace period of 2*DisposeTimeout to get through
		// the queue; mutators flooding the queue would make that a race of
		// wall-clock times)
		nMut = 0
	}

	baseLoops := countLoops()
	parent, parentCancel := context.WithCancel(context.Background())
	defer parentCancel()
	schema := am.Schema{"A": {}, "B": {Multi: true}, "C": {Auto: r.IntN(2) == 0}, "D": {Remove: am.S{"A"}}}
	names := []string{"A", "B", "C", "D"}
	if mixin {
		schema = am.SchemaMerge(schema, ssam.DisposedSchema)
		// the mix-in references Start
		schema["Start"] = am.State{}
	}
	tr := rec.NewTracer("rec")
	tr.NoSample = true
	m := am.New(parent, schema, &am.Opts{Id: "c13", Tracers: []am.Tracer{tr}, DontLogId: true, DontLogStackTrace: true,
		// the mutators below enqueue faster than the queue drains; a full queue
		// would (legitimately) cancel the state-based disposal mutations
		HandlerTimeout: 20 * time.Second, QueueLimit: 60000})
	m.DisposeTimeout = 50 * time.Millisecond
	if landing == "handler-parked-long" || mode == "mixin-parentctx" {
		// the graceful wait for the running queue must outlast the parked handler
		m.DisposeTimeout = 3 * time.Second
	}

	am.VerifHookClear()
	defer am.VerifHookClear()

	// landing gates
	gate := make(chan struct{})
	reached := make(chan struct{}, 4)
	var once sync.Once
	park := func() {
		once.Do(func() {
			reached <- struct{}{}
			select {
			case <-gate:
			case <-time.After(20 * time.Second):
			}
		})
	}
	var disposeNow func()
	var dispCalled atomic.Int32
	doDispose := func() {
		dispCalled.Add(1)
		switch mode {
		case "dispose":
			m.Dispose()
		case "double":
			m.Dispose()
			m.Dispose()
		case "concurrent":
			var wg sync.WaitGroup
			for i := 0; i < 3; i++ {
				wg.Add(1)
				go func() { defer wg.Done(); m.Dispose() }()
			}
			wg.Wait()
		case "parentctx", "mixin-parentctx":
			parentCancel()
		case "amhelp":
			amhelp.Dispose(m)
		case "force":
			m.DisposeForce()
		}
	}
	disposeNow = doDispose

	hl := &rec.HLog{}
	var fromHandlerOnce sync.Once
	var armed atomic.Bool // set once the pre-state and the subscriptions are in place
	if withHandlers {
		hnames := rec.AllHandlerNames(names)
		_, _ = rec.BindMaps(m, hl, 0, hnames, func(hc *rec.HCall, e *am.Event) bool {
			if e.IsCheck || !armed.Load() {
				return true
			}
			neg := rec.IsNegotiation(hc.Name)
			if origin == "negotiation" && neg && hc.Name == "AEnter" {
				fromHandlerOnce.Do(disposeNow)
			}
			if origin == "final" && !neg && hc.Name == "AState" {
				fromHandlerOnce.Do(disposeNow)
			}
			if landing == "mid-negotiation" && hc.Name == "AEnter" {
				park()
			}
			if (landing == "mid-final" || landing == "handler-parked-long" || landing == "eval-queued") && hc.Name == "AState" {
				park()
			}
			return true
		})
		if mixin {
			dh := &dispHandlers{&ssam.DisposedHandlers{}}
			if _, err := m.HandlersBind(dh); err != nil {
				res.Inconclusive = "bind DisposedHandlers: " + err.Error()
				return res
			}
		}
	}
	if strings.HasPrefix(landing, "dispose.") {
		am.VerifHookSet(landing, func() {
			if armed.Load() {
				park()
			}
		})
	}

	// dispose handlers
	dispRuns := make([]atomic.Int32, nDisp)
	for i := 0; i < nDisp; i++ {
		ii := i
		fn := func(id string, ctx context.Context) { dispRuns[ii].Add(1) }
		if mixin && r.IntN(2) == 0 {
			amhelp.DisposeBind(m, fn)
		} else {
			m.OnDispose(fn)
		}
	}

	// pre-state and subscriptions
	for _, op := range gen.RandHistory(r, names, []string{"add", "remove"}, r.IntN(4)) {
		rec.Apply(m, op)
	}
	var subs []subRec
	for i := 0; i < nSubs; i++ {
		st := names[r.IntN(len(names))]
		var cx context.Context
		if r.IntN(4) == 0 {
			cx = context.Background()
		}
		switch r.IntN(9) {
		case 0:
			subs = append(subs, subRec{"When", m.When(am.S{st, "B"}, cx), nil})
		case 1:
			subs = append(subs, subRec{"WhenNot", m.WhenNot(am.S{st}, cx), nil})
		case 2:
			subs = append(subs, subRec{"WhenTime", m.WhenTime1(st, 1000, cx), nil})
		case 3:
			subs = append(subs, subRec{"WhenTicks", m.WhenTicks(st, 500, cx), nil})
		case 4:
			subs = append(subs, subRec{"WhenQuery", m.WhenQuery(func(am.Clock) bool { return false }, cx), nil})
		case 5:
			subs = append(subs, subRec{"WhenArgs", m.WhenArgs(st, am.A{"never": rec.NextUid()}, cx), nil})
		case 6:
			subs = append(subs, subRec{"WhenQueue", m.WhenQueue(am.Result(m.QueueTick() + 100000)), nil})
		case 7:
			subs = append(subs, subRec{"WhenErr", m.WhenErr(cx), nil})
		case 8:
			subs = append(subs, subRec{"StateCtx", nil, m.NewStateCtx(st)})
		}
	}
	// only keep those that are open now
	var open []subRec
	for _, s := range subs {
		if s.ctx != nil && s.ctx.Err() == nil || s.ch != nil && !isClosed(s.ch) {
			open = append(open, s)
		}
	}

	// mutators
	var stop atomic.Bool
	var mwg sync.WaitGroup
	for g := 0; g < nMut; g++ {
		gr := rand.New(rand.NewPCG(c.Seed, uint64(g)))
		mwg.Add(1)
		go func() {
			defer mwg.Done()
			for i := 0; i < 400 && !stop.Load(); i++ {
				kinds := []string{"add", "remove", "set", "canadd"}
				if mixin {
					// a Set would legitimately deactivate Disposing and cancel the disposal
					kinds = []string{"add", "remove", "canadd"}
				}
				rec.Apply(m, gen.RandOp(gr, names, kinds))
				if i%5 == 0 {
					runtime.Gosched()
				}
			}
		}()
	}

	// subscribers: the waiting API is called while the disposal goes on (the
	// window between the disposing and the disposed flag included)
	var subPanics []string
	var during []subRec // what the racing subscribers were handed
	var subMx sync.Mutex
	for g := 0; g < 2; g++ {
		gr := rand.New(rand.NewPCG(c.Seed, uint64(100+g)))
		mwg.Add(1)
		go func() {
			defer mwg.Done()
			for i := 0; i < 3000 && !stop.Load(); i++ {
				st := names[gr.IntN(len(names))]
				api := []string{"When", "WhenNot", "WhenArgs", "WhenTime1", "WhenTicks", "NewStateCtx", "WhenQuery", "WhenTime1", "WhenQuery"}[gr.IntN(9)]
				var gotCh <-chan struct{}
				var gotCtx context.Context
				func() {
					defer func() {
						if rr := recover(); rr != nil {
							subMx.Lock()
							subPanics = append(subPanics, fmt.Sprintf("%s(%s): %v", api, st, rr))
							subMx.Unlock()
						}
					}()
					switch api {
					case "When":
						gotCh = m.When(am.S{st}, nil)
					case "WhenNot":
						gotCh = m.WhenNot(am.S{st}, nil)
					case "WhenArgs":
						gotCh = m.WhenArgs(st, am.A{"q": 1}, nil)
					case "WhenTime1":
						gotCh = m.WhenTime1(st, 1<<40, nil)
					case "WhenTicks":
						gotCh = m.WhenTicks(st, 1<<30, nil)
					case "WhenQuery":
						gotCh = m.WhenQuery(func(am.Clock) bool { return false }, nil)
					case "NewStateCtx":
						gotCtx = m.NewStateCtx(st)
					}
				}()
				if gotCh != nil || gotCtx != nil {
					subMx.Lock()
					during = append(during, subRec{kind: api, ch: gotCh, ctx: gotCtx})
					subMx.Unlock()
				}
				if i%7 == 0 {
					runtime.Gosched()
				}
			}
		}()
	}

	// drive to the landing point and dispose
	armed.Store(true)
	ctxInfo := map[string]any{"mode": mode, "origin": origin, "landing": landing, "handlers": withHandlers, "subs": len(open),
		"dispose_handlers": nDisp, "mutators": nMut, "seed": c.Seed}
	trigger := func() { go rec.Apply(m, gen.Op{Kind: "add", States: []string{"A"}}) }
	switch {
	case origin == "negotiation" || origin == "final":
		m.Remove(am.S{"A", "D"}, nil)
		trigger()
	case origin == "eval":
		go m.Eval("verif", func() { disposeNow() }, nil)
	case landing == "mid-negotiation" || landing == "mid-final":
		m.Remove(am.S{"A", "D"}, nil)
		trigger()
		select {
		case <-reached:
		case <-time.After(10 * time.Second):
			res.Inconclusive = "landing point not reached"
		}
		go func() { time.Sleep(time.Millisecond); close(gate) }()
		disposeNow()
	case landing == "handler-parked-long" || landing == "eval-queued":
		m.Remove(am.S{"A", "D"}, nil)
		trigger()
		select {
		case <-reached:
		case <-time.After(10 * time.Second):
			res.Inconclusive = "landing point not reached"
		}
		evalDone := make(chan string, 1)
		if landing == "eval-queued" {
			// far away: the disposal, not the eval timeout, has to release the call
			m.EvalTimeout = 40 * time.Second
			go func() {
				defer func() {
					if rr := recover(); rr != nil {
						evalDone <- fmt.Sprintf("PANIC %v", rr)
					}
				}()
				ok := m.Eval("verif", func() {}, nil)
				evalDone <- fmt.Sprintf("returned %v", ok)
			}()
			// let the eval get queued behind the parked handler
			for i := 0; i < 200 && m.QueueLen() == 0; i++ {
				time.Sleep(time.Millisecond)
			}
		}
		flagged := make(chan struct{}, 1)
		am.VerifHookSet("dispose.flagged", func() {
			select {
			case flagged <- struct{}{}:
			default:
			}
		})
		disposeNow()
		select {
		case <-flagged:
		case <-time.After(5 * time.Second):
		}
		// Dispose is in progress and the handler is demonstrably still parked:
		// the disposal must not complete underneath it
		time.Sleep(400 * time.Millisecond)
		res.Evals++
		if landing == "handler-parked-long" && isClosed(m.WhenDisposed()) && hl.InHandler() {
			res.Violate("C13/disposed-while-handler-running/"+mode, "WhenDisposed closed while a handler of the machine was still executing "+
				"(parked inside AState, DisposeTimeout 3s not elapsed)", map[string]any{"mode": mode, "landing": landing, "seed": c.Seed})
		}
		close(gate)
		if landing == "eval-queued" {
			res.Evals++
			select {
			case msg := <-evalDone:
				if strings.HasPrefix(msg, "PANIC") {
					res.Violate("C13/eval-queued/panic", "an Eval queued before Dispose panicked in its caller: "+msg,
						map[string]any{"mode": mode, "seed": c.Seed})
				}
			case <-time.After(15 * time.Second):
				// (EvalTimeout is 40s here)
				if isClosed(m.WhenDisposed()) {
					res.Violate("C13/eval-queued/blocked", "an Eval queued before Dispose is still blocked although WhenDisposed has closed "+
						"(15s after the handler was released; only its own timeout of 40s will release it)", map[string]any{"mode": mode, "seed": c.Seed})
				} else {
					res.Inconclusive = "the disposal did not complete"
				}
				return res
			}
		}
	case landing == "during-eval":
		inEval := make(chan struct{})
		rel := make(chan struct{})
		go m.Eval("verif", func() { close(inEval); <-rel }, nil)
		select {
		case <-inEval:
		case <-time.After(5 * time.Second):
		}
		go func() { time.Sleep(time.Millisecond); close(rel) }()
		disposeNow()
	case landing == "queue-running":
		trigger()
		disposeNow()
	case strings.HasPrefix(landing, "dispose."):
		// a first dispose is parked inside doDispose, a second one lands meanwhile
		go disposeNow()
		select {
		case <-reached:
			m.Dispose()
			rec.Apply(m, gen.Op{Kind: "add", States: []string{"B"}})
		case <-time.After(10 * time.Second):
			res.Inconclusive = "dispose gate not reached"
		}
		close(gate)
	default:
		disposeNow()
	}

	// wait for WhenDisposed
	select {
	case <-m.WhenDisposed():
	case <-time.After(30 * time.Second):
		buf := make([]byte, 4<<20)
		n := runtime.Stack(buf, true)
		dump := string(buf[:n])
		stop.Store(true)
		if dispCalled.Load() == 0 {
			res.Inconclusive = "the dispose trigger was never reached"
			return res
		}
		if strings.Contains(dump, "doDispose") || strings.Contains(dump, ".Dispose(") {
			res.Inconclusive = "WhenDisposed still open but a dispose is in flight"
			return res
		}
		res.Violate("C13/whendisposed-open/"+mode+"/"+origin, "WhenDisposed is still open 30s after disposal was requested and no dispose is in flight",
			map[string]any{"ctx": ctxInfo, "dump": dump, "active": m.ActiveStates(nil), "last_transitions": lastTxs(tr, 400)})
		return res
	}
	stop.Store(true)
	mwg.Wait()
	res.Key(mode, origin, landing, withHandlers, len(open) > 0)

	viol := func(sig, what string) { res.Violate(sig, what, ctxInfo) }
	subMx.Lock()
	for _, p := range subPanics {
		api := strings.SplitN(p, "(", 2)[0]
		viol("C13/during/panic/"+api, "a subscription call made while the machine was being disposed panicked: "+p)
		break
	}
	// whatever they were handed - before, while or after the disposal - is
	// closed now
	res.Count("subscriptions_made_while_disposing_or_around", int64(len(during)))
	for _, s := range during {
		if mode == "force" {
			// DisposeForce closes the subscriptions without taking the locks a
			// concurrent subscriber holds: outside its contract
			break
		}
		res.Evals++
		if s.ctx != nil {
			// (a disposing machine answers with context.TODO(), which has no Done
			// channel: the neutral answer of a later call, not a state context)
			if s.ctx.Err() == nil && s.ctx.Done() != nil {
				viol("C13/alive-after-dispose/subscribed-around-dispose/NewStateCtx", "a state context handed out while the machine was being disposed is alive after WhenDisposed closed")
				break
			}
		} else if s.ch != nil && !isClosed(s.ch) {
			viol("C13/open-after-dispose/subscribed-around-dispose/"+s.kind, "a "+s.kind+" channel handed out while the machine was being disposed is open after WhenDisposed closed")
			break
		}
	}
	subMx.Unlock()
	// 1. earlier waiters
	for _, s := range open {
		res.Evals++
		if s.ctx != nil {
			if s.ctx.Err() == nil {
				viol("C13/alive/StateCtx", "a state context created before Dispose is still alive after WhenDisposed closed")
			}
		} else if !isClosed(s.ch) {
			viol("C13/open/"+s.kind, "a "+s.kind+" channel returned before Dispose is still open after WhenDisposed closed")
		}
	}
	// 2. dispose handlers exactly once
	for i := range dispRuns {
		res.Evals++
		if n := dispRuns[i].Load(); n != 1 {
			viol(fmt.Sprintf("C13/dispose-handler-runs=%d/%s", n, mode), fmt.Sprintf("a registered dispose handler ran %d times", n))
		}
	}
	// 3. later calls: neutral, prompt, no panic
	type probe struct {
		name string
		fn   func() string // "" = ok
	}
	exp := func(name string, got, want any) string {
		if fmt.Sprint(got) != fmt.Sprint(want) {
			return fmt.Sprintf("%s returned %v, want %v", name, got, want)
		}
		return ""
	}
	probes := []probe{
		{"Add", func() string { return exp("Add", m.Add(am.S{"A"}, nil), am.Canceled) }},
		{"Add1", func() string { return exp("Add1", m.Add1("B", am.A{"x": 1}), am.Canceled) }},
		{"Remove", func() string { return exp("Remove", m.Remove(am.S{"A"}, nil), am.Canceled) }},
		{"Set", func() string { return exp("Set", m.Set(am.S{"A"}, nil), am.Canceled) }},
		{"Toggle", func() string { return exp("Toggle", m.Toggle(am.S{"A"}, nil), am.Canceled) }},
		{"AddErr", func() string { return exp("AddErr", m.AddErr(rec.ErrInjected, nil), am.Canceled) }},
		{"CanAdd", func() string { return exp("CanAdd", m.CanAdd(am.S{"A"}, nil), am.Canceled) }},
		{"CanRemove", func() string { return exp("CanRemove", m.CanRemove(am.S{"A"}, nil), am.Canceled) }},
		{"Is", func() string { return exp("Is", m.Is(am.S{"A"}), false) }},
		{"Is1", func() string { return exp("Is1", m.Is1("B"), false) }},
		{"Any1", func() string { return exp("Any1", m.Any1("A", "B"), false) }},
		{"ActiveStates", func() string { return exp("len(ActiveStates)", len(m.ActiveStates(nil)), 0) }},
		{"Queue", func() string { return exp("len(Queue)", len(m.Queue()), 0) }},
		{"Clock", func() string { return exp("len(Clock)", len(m.Clock(nil)), 0) }},
		{"When", func() string { return exp("When closed", isClosed(m.When(am.S{"A"}, nil)), true) }},
		{"WhenNot", func() string { return exp("WhenNot closed", isClosed(m.WhenNot(am.S{"A"}, nil)), true) }},
		{"WhenTime1", func() string { return exp("WhenTime1 closed", isClosed(m.WhenTime1("A", 99, nil)), true) }},
		{"WhenTicks", func() string { return exp("WhenTicks closed", isClosed(m.WhenTicks("A", 9, nil)), true) }},
		{"WhenQuery", func() string {
			return exp("WhenQuery closed", isClosed(m.WhenQuery(func(am.Clock) bool { return false }, nil)), true)
		}},
		{"WhenArgs", func() string { return exp("WhenArgs closed", isClosed(m.WhenArgs("A", am.A{"q": 1}, nil)), true) }},
		{"WhenQueue", func() string { return exp("WhenQueue closed", isClosed(m.WhenQueue(am.Result(99999))), true) }},
		{"WhenQueueEnds", func() string { return exp("WhenQueueEnds closed", isClosed(m.WhenQueueEnds()), true) }},
		{"WhenErr", func() string { return exp("WhenErr closed", isClosed(m.WhenErr(nil)), true) }},
		{"WhenDisposed", func() string { return exp("WhenDisposed closed", isClosed(m.WhenDisposed()), true) }},
		// only required not to panic or block
		{"Tick", func() string { m.Tick("A"); return "" }},
		{"Time", func() string { m.Time(nil); return "" }},
		{"String", func() string { _ = m.String(); _ = m.StringAll(); _ = m.Inspect(nil); return "" }},
		{"StateNames", func() string { _ = m.StateNames(); _ = m.Schema(); return "" }},
		{"Export", func() string { _, _, _ = m.Export(); return "" }},
		{"NewStateCtx", func() string { _ = m.NewStateCtx("A"); return "" }},
		{"Eval", func() string { m.Eval("verif", func() {}, nil); return "" }},
		{"HandlersBindMaps", func() string {
			_, _ = m.HandlersBindMaps(nil, map[string]am.HandlerFinal{"AState": func(*am.Event) {}})
			return ""
		}},
		{"Handlers", func() string { _ = m.Handlers(); return "" }},
		{"TracerBind", func() string { _, _ = m.TracerBind(rec.NewTracer("late")); return "" }},
		{"Misc", func() string {
			_ = m.IsErr()
			_ = m.Err()
			_ = m.QueueTick()
			_ = m.QueueLen()
			_ = m.Transition()
			_ = m.Has1("A")
			_ = m.Index1("A")
			_ = m.Switch(am.S{"A"})
			_ = m.Tags()
			_ = m.IsDisposed()
			m.Log("x")
			m.OnDispose(func(string, context.Context) {})
			m.Dispose()
			return ""
		}},
	}
	for _, p := range probes {
		res.Evals++
		done := make(chan string, 1)
		go func() {
			defer func() {
				if rr := recover(); rr != nil {
					done <- fmt.Sprintf("PANIC %v", rr)
				}
			}()
			done <- p.fn()
		}()
		select {
		case msg := <-done:
			if strings.HasPrefix(msg, "PANIC") {
				viol("C13/after/panic/"+p.name, p.name+" on a disposed machine panicked: "+msg)
			} else if msg != "" {
				viol("C13/after/not-neutral/"+p.name, "on a disposed machine "+msg)
			}
		case <-time.After(15 * time.Second):
			buf := make([]byte, 4<<20)
			n := runtime.Stack(buf, true)
			blocked, active := core.StableBlock(string(buf[:n]))
			if len(blocked) > 0 && len(active) == 0 {
				res.Violate("C13/after/blocked/"+p.name, p.name+" on a disposed machine never returned", map[string]any{"ctx": ctxInfo, "dump": string(buf[:n])})
			} else {
				res.Inconclusive = p.name + " did not return within the watchdog"
			}
			return res
		}
	}
	// 4. handler goroutine gone
	if withHandlers {
		res.Evals++
		gone := false
		for i := 0; i < 500; i++ {
			if countLoops() <= baseLoops {
				gone = true
				break
			}
			time.Sleep(10 * time.Millisecond)
		}
		if !gone {
			buf := make([]byte, 4<<20)
			n := runtime.Stack(buf, true)
			res.Violate("C13/handler-goroutine-left/"+mode, fmt.Sprintf(
				"%d handlerLoop goroutines remain 5s after WhenDisposed closed (baseline %d)", countLoops(), baseLoops),
				map[string]any{"ctx": ctxInfo, "dump": string(buf[:n])})
		}
	}
	if strings.HasSuffix(c.ID, "/00000") {
		res.Sample = ctxInfo
	}
	return res
}

func main() { core.Main(eng{}) }

func lastTxs(tr *rec.Tracer, n int) []string {
	txs := tr.Snapshot()
	if len(txs) > n {
		txs = txs[len(txs)-n:]
	}
	var ret []string
	for i, t := range txs {
		if i < len(txs)-6 && !strings.Contains(fmt.Sprint(t.Called), "Dispos") {
			continue
		}
		ret = append(ret, fmt.Sprintf("%s%v auto=%v accepted=%v cb=%s", t.Type, t.Called, t.IsAuto, t.Accepted, t.Callbacks))
	}
	return ret
}
