package main

import (
	"fmt"
	"reflect"
	"runtime"
	"sort"
	"strings"
	"time"

	am "github.com/pancsta/asyncmachine-go/pkg/machine"

	"verif/core"
	"verif/gen"
)

// skipFuncs: package-level functions outside the statement's domain, with the
// reason (reported by the surface case).
var skipFuncs = map[string]string{
	"amhelp.EnableDebugging": "sets process-wide environment variables that make every later machine dial a debugger address",
	"amhelp.SetEnvLogLevel":  "sets a process-wide environment variable",
	"amhelp.MachDebug":       "dials a debugger address",
	"amhelp.MachDebugWs":     "dials a debugger address",
	"am.TestMockClock":       "test helper documented to overwrite the machine's clock",
}

func funcNames() []string {
	var ns []string
	for n := range pkgFuncs {
		if _, skip := skipFuncs[n]; !skip {
			ns = append(ns, n)
		}
	}
	sort.Strings(ns)
	return ns
}

// funcPhases: functions that take a machine are also called on a disposed one.
func funcPhases(name string) []string {
	t := reflect.TypeOf(pkgFuncs[name])
	for i := 0; i < t.NumIn(); i++ {
		if t.In(i) == tApi || t.In(i) == tMachine {
			return []string{"fresh", "disposed"}
		}
	}
	return []string{"fresh"}
}

var tMachine = reflect.TypeOf((*am.Machine)(nil))

// runFunc: totality of one package-level function over its argument domains.
// Every call gets a machine of its own (several helpers dispose their
// argument).
func runFunc(res *core.CaseResult, c core.CaseDesc, p callP, tier string) {
	name := p.Method
	fn := reflect.ValueOf(pkgFuncs[name])
	ft := fn.Type()
	r := gen.NewRand(c.Seed, uint64(len(name)*977+len(p.Phase)))
	w0 := newWorld(p.Phase)
	var doms [][]reflect.Value
	for i := 0; i < ft.NumIn(); i++ {
		variadic := ft.IsVariadic() && i == ft.NumIn()-1
		d := w0.domain("func", name, i, ft.In(i), variadic, r)
		if len(d) == 0 {
			res.Inconclusive = fmt.Sprintf("no argument domain for parameter %d (%s) of %s", i, ft.In(i), name)
			w0.m.Dispose()
			w0.cancel()
			return
		}
		doms = append(doms, d)
	}
	w0.m.Dispose()
	w0.cancel()
	// tuples are index vectors, so that every call can rebuild its arguments
	// against a fresh world
	idxDoms := make([][]reflect.Value, len(doms))
	for i, d := range doms {
		for j := range d {
			idxDoms[i] = append(idxDoms[i], reflect.ValueOf(j))
		}
	}
	limit := 12
	if tier == "thorough" {
		limit = 48
	}
	for _, it := range product(idxDoms, limit, r) {
		w := newWorld(p.Phase)
		rr := gen.NewRand(c.Seed, uint64(len(name)*977+len(p.Phase)))
		args := make([]reflect.Value, ft.NumIn())
		for i := 0; i < ft.NumIn(); i++ {
			variadic := ft.IsVariadic() && i == ft.NumIn()-1
			d := w.domain("func", name, i, ft.In(i), variadic, rr)
			j := int(it[i].Int())
			if j >= len(d) {
				j = len(d) - 1
			}
			args[i] = w.resolve(d[j])
		}
		if !w.precondition("func", name, reflect.Value{}, args) {
			res.Count("tuples_outside_documented_precondition", 1)
			w.m.Dispose()
			w.cancel()
			continue
		}
		desc := fmt.Sprintf("%s(%s) phase=%s", name, descArgs(args), p.Phase)
		fmt.Println("CALL " + desc)
		res.Evals++
		done := make(chan any, 1)
		go func() {
			defer func() { done <- recover() }()
			if ft.IsVariadic() {
				fn.CallSlice(args)
			} else {
				fn.Call(args)
			}
		}()
		stop := false
		select {
		case pan := <-done:
			if pan != nil && !documentedPanic("func", name, pan) {
				res.Violate("C20/panic/"+name, fmt.Sprintf("%s panicked: %v", desc, pan), map[string]any{"call": desc, "panic": fmt.Sprint(pan)})
			}
		case <-time.After(8 * time.Second):
			buf := make([]byte, 4<<20)
			nb := runtime.Stack(buf, true)
			blocked, active := core.StableBlock(string(buf[:nb]))
			if len(blocked) > 0 && len(active) == 0 {
				res.Violate(fmt.Sprintf("C20/blocked/%s/%s", name, p.Phase), fmt.Sprintf("%s never returned (parked in %v)", desc, blocked),
					map[string]any{"call": desc, "dump": string(buf[:nb])})
			} else {
				res.Inconclusive = desc + " did not return within the watchdog"
			}
			stop = true
		}
		if p.Phase != "disposed" {
			w.m.Dispose()
		}
		w.cancel()
		if stop {
			return
		}
	}
	res.Key("func", name, p.Phase)
}

func funcSurface() (n int, skipped []string) {
	for name, why := range skipFuncs {
		if _, ok := pkgFuncs[name]; ok {
			skipped = append(skipped, name+": "+why)
		}
	}
	for _, g := range pkgFuncsSkipped {
		skipped = append(skipped, g)
	}
	sort.Strings(skipped)
	return len(pkgFuncs), skipped
}

var _ = strings.HasPrefix
