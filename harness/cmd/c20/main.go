// C20: public helpers are total, obey their algebra, and getters return copies.
package main

import (
	"context"
	"encoding/json"
	"fmt"
	"math/rand/v2"
	"reflect"
	"runtime"
	"runtime/debug"
	"sort"
	"strings"
	"sync"
	"time"

	am "github.com/pancsta/asyncmachine-go/pkg/machine"

	"verif/core"
	"verif/gen"
	"verif/rec"
)

type eng struct{}

func (eng) Property() string { return "C20" }
func (eng) Level() string    { return "exploration" }
func (eng) Rule() string {
	return "cases: (call) every exported method of *Machine, S, Time, *TimeIndex, Clock, Schema, State, *Event, *Mutation and *Transition, " +
		"enumerated by reflection (additions are covered automatically), x machine phase {fresh, mid-queue (from a handler), errored, " +
		"after SetSchema, disposed} x up to 24 argument tuples drawn from per-type domains (existing state names and subsets incl. empty and " +
		"duplicates, nil/empty/non-empty args, live/canceled/nil ctx where optional, all Positions, zero pools, events with and without a " +
		"machine); each call is logged before it is made and runs under recover and a watchdog in a child process; (law) state-list and " +
		"time algebra against set-theoretic references over PRNG inputs; (help) pkg/helpers wait/ask/sync helpers against the tracer, the Cant*/CanAdd+ACheck questions and AddSync/RemoveSync (live and nil context) also asked behind a held queue, CanRemove1 with args a handler decides by; " +
		"(copy) mutating values returned by getters must not change the machine; (json) integration handlers with valid requests. " +
		"Evaluation = one call or one law instance; distinct non-trivial = distinct (receiver type, method, phase) or law name."
}
func (eng) Assumptions() []string {
	return []string{
		"argument domains are conservative: only states that exist in the schema, non-empty eval sources, documented-optional nils",
		"documented misuse is excluded: DisposeForce, Import, SetSchema with an invalid schema, Resolver(), Must*-style documented panics",
		"a call that does not return within the watchdog is classified from the goroutine dump (stable block = violation, else inconclusive)",
	}
}

type callP struct {
	Recv   string `json:"recv"`
	Method string `json:"method"`
	Phase  string `json:"phase"`
}

var phases = []string{"fresh", "mid-queue", "errored", "after-setschema", "disposed"}

func (eng) Cases(seed uint64, tier string) []core.CaseDesc {
	var cs []core.CaseDesc
	add := func(kind, id string, p any, s uint64) {
		raw, _ := json.Marshal(p)
		cs = append(cs, core.CaseDesc{ID: id, Kind: kind, Seed: s, P: raw})
	}
	for _, rt := range recvTypes() {
		for i := 0; i < rt.t.NumMethod(); i++ {
			m := rt.t.Method(i)
			if skipMethod(rt.name, m.Name) {
				continue
			}
			phs := []string{"fresh"}
			if rt.phased {
				phs = phases
			}
			for _, ph := range phs {
				add("call", fmt.Sprintf("call/%s.%s/%s", rt.name, m.Name, ph), callP{rt.name, m.Name, ph}, seed)
			}
		}
	}
	for _, fnName := range funcNames() {
		for _, ph := range funcPhases(fnName) {
			add("func", fmt.Sprintf("func/%s/%s", fnName, ph), callP{"func", fnName, ph}, seed)
		}
	}
	nl := 40
	if tier == "thorough" {
		nl = 1500
	}
	for i := 0; i < nl; i++ {
		add("law", fmt.Sprintf("law/%05d", i), nil, seed*1000003+uint64(i))
	}
	nh := 12
	if tier == "thorough" {
		nh = 200
	}
	for i := 0; i < nh; i++ {
		add("help", fmt.Sprintf("help/%04d", i), nil, seed*2000003+uint64(i))
		add("copy", fmt.Sprintf("copy/%04d", i), nil, seed*3000003+uint64(i))
	}
	add("json", "json/0", nil, seed)
	add("surface", "surface", nil, seed)
	return cs
}

func (eng) CaseTimeout(string) time.Duration { return 4 * time.Minute }

func (eng) Crash(c core.CaseDesc, tail string) *core.Violation {
	name := c.ID
	if c.Kind == "call" {
		var p callP
		_ = json.Unmarshal(c.P, &p)
		name = p.Recv + "." + p.Method + "/" + p.Phase
	}
	if c.Kind == "func" {
		var p callP
		_ = json.Unmarshal(c.P, &p)
		name = p.Method + "/" + p.Phase
	}
	first := "unknown"
	for _, l := range strings.Split(tail, "\n") {
		if strings.HasPrefix(l, "fatal error:") || strings.HasPrefix(l, "panic:") || strings.HasPrefix(l, "runtime:") {
			first = strings.TrimSpace(l)
			if len(first) > 80 {
				first = first[:80]
			}
			break
		}
	}
	return &core.Violation{Sig: "C20/process-fatal/" + name, What: "the process died during " + name + ": " + first, Witness: tail}
}

func (eng) Hang(c core.CaseDesc, dump string) *core.Violation {
	blocked, active := core.StableBlock(dump)
	if len(blocked) > 0 && len(active) == 0 {
		return &core.Violation{Sig: "C20/blocked/" + strings.TrimPrefix(strings.TrimPrefix(c.ID, "call/"), "func/"), What: fmt.Sprintf(
			"the call never returned: parked in %v", blocked), Witness: dump}
	}
	return nil
}

// ---------- receivers

type recvType struct {
	name   string
	t      reflect.Type
	phased bool
}

func recvTypes() []recvType {
	return []recvType{
		{"Machine", reflect.TypeOf((*am.Machine)(nil)), true},
		{"Event", reflect.TypeOf((*am.Event)(nil)), true},
		{"Transition", reflect.TypeOf((*am.Transition)(nil)), false},
		{"Mutation", reflect.TypeOf((*am.Mutation)(nil)), false},
		{"S", reflect.TypeOf(am.S{}), false},
		{"Time", reflect.TypeOf(am.Time{}), false},
		{"TimeIndex", reflect.TypeOf((*am.TimeIndex)(nil)), false},
		{"Clock", reflect.TypeOf(am.Clock{}), false},
		{"Schema", reflect.TypeOf(am.Schema{}), false},
		{"State", reflect.TypeOf(am.State{}), false},
		{"ExceptionHandler", reflect.TypeOf((*am.ExceptionHandler)(nil)), false},
	}
}

// documented misuse / not in the statement's domain
var skipMethods = map[string]string{
	"Machine.DisposeForce":       "documented to cause panics",
	"Machine.Dispose":            "the phase driver disposes",
	"Machine.Import":             "documented as unsafe on a used machine",
	"Machine.SetSchema":          "needs a strictly larger valid schema (covered by C06)",
	"Machine.Resolver":           "returns the not thread-safe resolver",
	"Machine.VerifyStates":       "documented to return an error / panic on mismatching names",
	"Machine.SetGroups":          "needs schema-v2 group structs",
	"Machine.SetGroupsString":    "needs schema-v2 group structs",
	"Machine.MustBindHandlers":   "Must* documents its panic",
	"Machine.MustParseStates":    "Must* documents its panic",
	"Machine.HandlersBind":       "needs a handlers struct (bound in every phase anyway)",
	"Machine.BindHandlers":       "needs a handlers struct",
	"Machine.PrependMut":         "internal queue surgery with a raw *Mutation",
	"Machine.InternalUpdateClock": "internal",
	"Machine.SetSimple":          "documented panic on nil",
	"Transition.CleanCache":      "internal",
}

func skipMethod(recv, name string) bool {
	if _, ok := skipMethods[recv+"."+name]; ok {
		return true
	}
	return strings.HasPrefix(name, "Verif") || strings.HasPrefix(name, "Internal") || strings.HasPrefix(name, "Must")
}

// world is a machine in a phase plus captured objects.
type world struct {
	m      *am.Machine
	names  []string
	ev     *am.Event
	tx     *am.Transition
	ctx    context.Context
	cancel context.CancelFunc
	// inHandler runs fn from inside a final handler of the machine
	inHandler func(fn func())
	hmx       sync.Mutex
	// live stands in argument tuples for "the event of the handler the call
	// is made from" (resolved at call time)
	live *am.Event
}

// event returns the event of the running (or last) handler.
func (w *world) event() *am.Event {
	w.hmx.Lock()
	defer w.hmx.Unlock()
	return w.ev
}

// resolve swaps the live-event placeholder for the current event.
func (w *world) resolve(v reflect.Value) reflect.Value {
	if v.IsValid() && v.Type() == tEvent && !v.IsNil() && v.Interface().(*am.Event) == w.live {
		if ev := w.event(); ev != nil {
			return reflect.ValueOf(ev)
		}
	}
	return v
}

var userStates = []string{"A", "B", "C", "D"}

func newWorld(phase string) *world {
	ctx, cancel := context.WithCancel(context.Background())
	schema := am.Schema{"A": {}, "B": {Multi: true}, "C": {Require: am.S{"A"}}, "D": {Remove: am.S{"A"}, Auto: false}}
	w := &world{ctx: ctx, cancel: cancel, names: userStates, live: &am.Event{Name: "<live>"}}
	tr := &capTracer{TracerNoOp: &am.TracerNoOp{Id: "cap"}, w: w}
	m := am.New(ctx, schema, &am.Opts{Id: "c20", DontLogId: true, DontLogStackTrace: true, Tracers: []am.Tracer{tr},
		HandlerTimeout: 10 * time.Second})
	w.m = m
	hmx := &w.hmx
	var pending func()
	_, _ = m.HandlersBindMaps(map[string]am.HandlerNegotiation{
		"AnyEnter": func(e *am.Event) bool {
			hmx.Lock()
			w.ev = e
			hmx.Unlock()
			return true
		},
	}, map[string]am.HandlerFinal{
		"BState": func(e *am.Event) {
			hmx.Lock()
			w.ev = e
			fn := pending
			pending = nil
			hmx.Unlock()
			if fn != nil {
				fn()
			}
		},
	})
	w.inHandler = func(fn func()) {
		done := make(chan struct{})
		hmx.Lock()
		pending = func() { defer close(done); fn() }
		hmx.Unlock()
		m.Add1("B", nil)
		select {
		case <-done:
		case <-time.After(30 * time.Second):
		}
	}
	m.Add1("A", am.A{"k": "v"})
	m.Add1("B", nil)
	switch phase {
	case "errored":
		m.AddErr(rec.ErrInjected, nil)
	case "after-setschema":
		ns := m.Schema()
		ns["Z"] = am.State{}
		_ = m.SetSchema(ns, append(append(am.S{}, m.StateNames()...), "Z"))
		w.names = append(append([]string{}, userStates...), "Z")
	case "disposed":
		m.Dispose()
		select {
		case <-m.WhenDisposed():
		case <-time.After(10 * time.Second):
		}
	}
	return w
}

type capTracer struct {
	*am.TracerNoOp
	w *world
}

func (t *capTracer) TransitionEnd(tx *am.Transition) { t.w.tx = tx }

// ---------- the call case

type callLog struct {
	mx   sync.Mutex
	last string
}

func (eng) Run(c core.CaseDesc, tier string) *core.CaseResult {
	res := &core.CaseResult{Case: c}
	debug.SetMaxStack(64 << 20)
	switch c.Kind {
	case "call":
		var p callP
		_ = json.Unmarshal(c.P, &p)
		runCall(res, c, p, tier)
	case "func":
		var p callP
		_ = json.Unmarshal(c.P, &p)
		runFunc(res, c, p, tier)
	case "law":
		runLaws(res, c)
	case "help":
		runHelpers(res, c)
	case "copy":
		runCopy(res, c)
	case "json":
		runJSON(res, c)
	case "surface":
		runSurface(res, c)
	}
	return res
}

func findRecvType(name string) recvType {
	for _, rt := range recvTypes() {
		if rt.name == name {
			return rt
		}
	}
	panic("unknown recv " + name)
}

// recvValue builds the receiver for a call.
func (w *world) recvValues(name string, r *rand.Rand) []reflect.Value {
	switch name {
	case "Machine":
		return []reflect.Value{reflect.ValueOf(w.m)}
	case "Event":
		vs := []reflect.Value{reflect.ValueOf(am.NewEvent(w.m, w.m)), reflect.ValueOf(w.live)}
		// an event without a machine
		vs = append(vs, reflect.ValueOf(&am.Event{Name: "AState", MachineId: "x"}))
		return vs
	case "Transition":
		if w.tx == nil {
			return nil
		}
		return []reflect.Value{reflect.ValueOf(w.tx)}
	case "Mutation":
		if w.tx == nil {
			return nil
		}
		return []reflect.Value{reflect.ValueOf(w.tx.Mutation)}
	case "S":
		return []reflect.Value{reflect.ValueOf(am.S{}), reflect.ValueOf(am.S{"A"}), reflect.ValueOf(am.S{"A", "B", "C"}),
			reflect.ValueOf(am.S{"B", "B", "A"})}
	case "Time":
		return []reflect.Value{reflect.ValueOf(am.Time{}), reflect.ValueOf(w.m.Time(nil)), reflect.ValueOf(am.Time{1, 2, 3, 4, 5}),
			reflect.ValueOf(am.Time{0})}
	case "TimeIndex":
		return []reflect.Value{reflect.ValueOf(am.NewTimeIndex(am.S{"A", "B", "C", "D", "Exception"}, []int{0, 2})),
			reflect.ValueOf(am.NewTimeIndex(am.S{}, nil))}
	case "Clock":
		return []reflect.Value{reflect.ValueOf(am.Clock{}), reflect.ValueOf(w.m.Clock(nil))}
	case "Schema":
		return []reflect.Value{reflect.ValueOf(am.Schema{}), reflect.ValueOf(w.m.Schema())}
	case "State":
		return []reflect.Value{reflect.ValueOf(am.State{}), reflect.ValueOf(am.State{Require: am.S{"A"}, Remove: am.S{"B"}, Multi: true})}
	case "ExceptionHandler":
		return []reflect.Value{reflect.ValueOf(&am.ExceptionHandler{})}
	}
	return nil
}

func runCall(res *core.CaseResult, c core.CaseDesc, p callP, tier string) {
	rt := findRecvType(p.Recv)
	meth, _ := rt.t.MethodByName(p.Method)
	r := gen.NewRand(c.Seed, uint64(len(p.Method)*131+len(p.Phase)))
	phase := p.Phase
	wp := phase
	if phase == "mid-queue" {
		wp = "fresh"
	}
	w := newWorld(wp)
	defer func() {
		if phase != "disposed" {
			w.m.Dispose()
		}
		w.cancel()
	}()
	recvs := w.recvValues(p.Recv, r)
	if len(recvs) == 0 {
		res.Inconclusive = "no receiver value available"
		return
	}
	mt := meth.Type
	// argument tuples
	var doms [][]reflect.Value
	for i := 1; i < mt.NumIn(); i++ {
		variadic := mt.IsVariadic() && i == mt.NumIn()-1
		doms = append(doms, w.domain(p.Recv, p.Method, i-1, mt.In(i), variadic, r))
	}
	tuples := product(doms, 24, r)
	maxT := 24
	if tier == "thorough" {
		maxT = 24
	}
	n := 0
	for _, recv := range recvs {
		for _, tup := range tuples {
			if n >= maxT*len(recvs) {
				break
			}
			if !w.precondition(p.Recv, p.Method, recv, tup) {
				res.Count("tuples_outside_documented_precondition", 1)
				continue
			}
			n++
			desc := fmt.Sprintf("%s.%s(%s) recv=%s phase=%s", p.Recv, p.Method, descArgs(tup), descVal(recv), phase)
			// logged before the call is made (process-fatal errors are attributed
			// to it)
			fmt.Println("CALL " + desc)
			res.Evals++
			call := func() (pan any) {
				defer func() { pan = recover() }()
				args := append([]reflect.Value{w.resolve(recv)}, tup...)
				for i := range args {
					args[i] = w.resolve(args[i])
				}
				if mt.IsVariadic() {
					meth.Func.CallSlice(args)
				} else {
					meth.Func.Call(args)
				}
				return nil
			}
			done := make(chan any, 1)
			go func() {
				if phase == "mid-queue" {
					w.inHandler(func() { done <- call() })
				} else {
					done <- call()
				}
			}()
			select {
			case pan := <-done:
				if pan != nil && !documentedPanic(p.Recv, p.Method, pan) {
					res.Violate(fmt.Sprintf("C20/panic/%s.%s", p.Recv, p.Method), fmt.Sprintf("%s panicked: %v", desc, pan),
						map[string]any{"call": desc, "panic": fmt.Sprint(pan)})
				}
			case <-time.After(8 * time.Second):
				buf := make([]byte, 4<<20)
				nb := runtime.Stack(buf, true)
				blocked, active := core.StableBlock(string(buf[:nb]))
				if len(blocked) > 0 && len(active) == 0 {
					res.Violate(fmt.Sprintf("C20/blocked/%s.%s/%s", p.Recv, p.Method, phase), fmt.Sprintf(
						"%s never returned (parked in %v)", desc, blocked), map[string]any{"call": desc, "dump": string(buf[:nb])})
				} else {
					res.Inconclusive = desc + " did not return within the watchdog"
				}
				return
			}
		}
	}
	res.Key(p.Recv, p.Method, p.Phase)
	if res.Sample == nil && p.Method == "Add" && phase == "fresh" {
		res.Sample = map[string]any{"method": p.Recv + "." + p.Method, "phase": phase, "tuples": n}
	}
}

// documentedPanic: panics that the godoc of the method announces.
func documentedPanic(recv, method string, pan any) bool {
	s := fmt.Sprint(pan)
	// unknown state names panic by documentation; the domains never produce
	// them except through S receivers used as arguments of their own methods
	if strings.Contains(s, "not defined in schema") {
		return true
	}
	return false
}

func product(doms [][]reflect.Value, limit int, r *rand.Rand) [][]reflect.Value {
	if len(doms) == 0 {
		return [][]reflect.Value{{}}
	}
	total := 1
	for _, d := range doms {
		if len(d) == 0 {
			return nil
		}
		total *= len(d)
		if total > 1<<20 {
			total = 1 << 20
		}
	}
	var ret [][]reflect.Value
	if total <= limit {
		idx := make([]int, len(doms))
		for {
			tup := make([]reflect.Value, len(doms))
			for i, d := range doms {
				tup[i] = d[idx[i]]
			}
			ret = append(ret, tup)
			k := len(doms) - 1
			for k >= 0 {
				idx[k]++
				if idx[k] < len(doms[k]) {
					break
				}
				idx[k] = 0
				k--
			}
			if k < 0 {
				break
			}
		}
		return ret
	}
	for n := 0; n < limit; n++ {
		tup := make([]reflect.Value, len(doms))
		for i, d := range doms {
			tup[i] = d[r.IntN(len(d))]
		}
		ret = append(ret, tup)
	}
	return ret
}

func descVal(v reflect.Value) string {
	if !v.IsValid() {
		return "<invalid>"
	}
	switch v.Kind() {
	case reflect.Func:
		return "func"
	case reflect.Ptr, reflect.Interface, reflect.Chan:
		if v.IsNil() {
			return "nil"
		}
		return v.Type().String()
	}
	s := fmt.Sprintf("%v", v.Interface())
	if len(s) > 60 {
		s = s[:60] + "..."
	}
	return s
}

func descArgs(t []reflect.Value) string {
	var p []string
	for _, v := range t {
		p = append(p, descVal(v))
	}
	return strings.Join(p, ", ")
}

// runSurface reports how much of the exported surface the reflection covers.
func runSurface(res *core.CaseResult, c core.CaseDesc) {
	total, skipped := 0, 0
	var sk []string
	for _, rt := range recvTypes() {
		for i := 0; i < rt.t.NumMethod(); i++ {
			total++
			if skipMethod(rt.name, rt.t.Method(i).Name) {
				skipped++
				sk = append(sk, rt.name+"."+rt.t.Method(i).Name)
			}
		}
	}
	sort.Strings(sk)
	res.Evals = int64(total)
	res.Key("surface", total)
	res.Key("surface-skipped", skipped)
	nf, fsk := funcSurface()
	res.Count("methods_reflected", int64(total))
	res.Count("methods_skipped_documented_misuse", int64(skipped))
	res.Count("functions_listed", int64(nf))
	res.Count("functions_skipped", int64(len(fsk)))
	res.Sample = map[string]any{"methods_reflected": total, "skipped": sk, "functions_listed": nf, "functions_skipped": fsk}
}

func main() { core.Main(eng{}) }
