package main

import (
	"context"
	"fmt"
	"math/rand/v2"
	"slices"
	"strings"
	"sync/atomic"
	"time"

	amhelp "github.com/pancsta/asyncmachine-go/pkg/helpers"
	amint "github.com/pancsta/asyncmachine-go/pkg/integrations"
	am "github.com/pancsta/asyncmachine-go/pkg/machine"

	"verif/core"
	"verif/gen"
	"verif/rec"
)

// guarded runs fn under recover and a watchdog. Returns "" when it returned.
func guarded(res *core.CaseResult, name string, fn func()) bool {
	done := make(chan any, 1)
	go func() {
		defer func() { done <- recover() }()
		fn()
	}()
	select {
	case p := <-done:
		if p != nil {
			res.Violate("C20/panic/"+name, fmt.Sprintf("%s panicked: %v", name, p), nil)
			return false
		}
		return true
	case <-time.After(10 * time.Second):
		res.Violate("C20/blocked/"+name, name+" did not return within 10s", nil)
		return false
	}
}

// helperMach: A plain; B Multi; C requires A; D removes A; V has a vetoing
// Enter handler; X has a vetoing Exit handler.
func helperMach() (*am.Machine, *rec.Tracer) {
	tr := rec.NewTracer("rec")
	m := am.New(context.Background(), am.Schema{"A": {}, "B": {Multi: true}, "C": {Require: am.S{"A"}}, "D": {Remove: am.S{"A"}},
		"V": {}, "X": {}},
		&am.Opts{Id: "c20h", DontLogId: true, DontLogStackTrace: true, Tracers: []am.Tracer{tr}, HandlerTimeout: 10 * time.Second})
	_, _ = m.HandlersBindMaps(map[string]am.HandlerNegotiation{
		"VEnter": func(e *am.Event) bool { return false },
		"XExit":  func(e *am.Event) bool { return false },
	}, nil)
	return m, tr
}

// runHelpers: the wait / ask / sync helpers return according to what actually
// happened to the machine.
func runHelpers(res *core.CaseResult, c core.CaseDesc) {
	r := gen.NewRand(c.Seed, 21)
	ctx := context.Background()
	check := func(name string, ok bool, what string, args ...any) {
		res.Evals++
		res.Key("help", name)
		if !ok {
			res.Violate("C20/helper/"+name, name+": "+fmt.Sprintf(what, args...), nil)
		}
	}
	m, _ := helperMach()
	defer m.Dispose()
	states := []string{"A", "B", "C", "D", "V", "X"}
	for it := 0; it < 25; it++ {
		st := states[r.IntN(len(states))]
		sub := am.S(gen.RandSubset(r, states, false))
		switch r.IntN(9) {
		case 0:
			var got bool
			if guarded(res, "AddSync", func() { got = amhelp.AddSync(ctx, m, sub) }) {
				check("AddSync", got == m.Is(sub), "AddSync(%v) returned %v but Is(%v) = %v", sub, got, sub, m.Is(sub))
			}
		case 1:
			var got bool
			if guarded(res, "Add1Sync", func() { got = amhelp.Add1Sync(ctx, m, st) }) {
				check("Add1Sync", got == m.Is1(st), "Add1Sync(%s) returned %v but Is1 = %v", st, got, m.Is1(st))
			}
		case 2:
			var got bool
			if guarded(res, "RemoveSync", func() { got = amhelp.RemoveSync(ctx, m, sub) }) {
				check("RemoveSync", got == m.Not(sub), "RemoveSync(%v) returned %v but Not(%v) = %v (active %v)", sub, got, sub, m.Not(sub), m.ActiveStates(nil))
			}
		case 3:
			var got bool
			if guarded(res, "Remove1Sync", func() { got = amhelp.Remove1Sync(ctx, m, st) }) {
				check("Remove1Sync", got == m.Not1(st), "Remove1Sync(%s) returned %v but Not1 = %v", st, got, m.Not1(st))
			}
		case 4:
			// CantAdd "confirms that the mutation is impossible": true implies the
			// same Add is canceled. (false promises nothing: the dry run accepts
			// partially rejected Multi calls by design.)
			var cant bool
			if guarded(res, "CantAdd", func() { cant = amhelp.CantAdd(m, sub, nil) }) {
				rs := m.Add(sub, am.A{"uid": rec.NextUid()})
				check("CantAdd", !cant || rs == am.Canceled, "CantAdd(%v) = %v but Add returned %s", sub, cant, rec.ResStr(rs))
				if !cant {
					res.Key("help", "CantAdd=false", rec.ResStr(rs))
				}
				// the vetoing Enter handler of V runs in the dry run too
				if slices.Contains(sub, "V") {
					check("CantAdd/veto", cant, "CantAdd(%v) = false although VEnter vetoes", sub)
				}
			}
		case 5:
			var cant bool
			xActive := m.Is1("X")
			if guarded(res, "CantRemove", func() { cant = amhelp.CantRemove(m, sub, nil) }) {
				rs := m.Remove(sub, am.A{"uid": rec.NextUid()})
				check("CantRemove", !cant || rs == am.Canceled, "CantRemove(%v) = %v but Remove returned %s (active after %v)", sub, cant,
					rec.ResStr(rs), m.ActiveStates(nil))
				// the vetoing Exit handler makes the removal of X impossible, and the
				// dry run sees the same handler
				if slices.Contains(sub, "X") && xActive && rs == am.Canceled {
					check("CantRemove/veto", cant, "CantRemove(%v) = false but the Exit veto canceled the Remove", sub)
				}
			}
		case 6:
			before := m.Is1(st)
			var rs am.Result
			if guarded(res, "AskAdd1", func() { rs = amhelp.AskAdd1(m, st, nil) }) {
				if rs == am.Executed {
					check("AskAdd1", m.Is1(st), "AskAdd1(%s) returned Executed but the state is inactive", st)
				} else if rs == am.Canceled {
					// must really be impossible
					rs2 := m.Add1(st, am.A{"uid": rec.NextUid()})
					check("AskAdd1", rs2 == am.Canceled || before, "AskAdd1(%s) returned Canceled but Add1 then returned %s", st, rec.ResStr(rs2))
				}
			}
		case 7:
			var rs am.Result
			if guarded(res, "AskRemove1", func() { rs = amhelp.AskRemove1(m, st, nil) }) {
				if rs == am.Executed {
					check("AskRemove1", m.Not1(st), "AskRemove1(%s) returned Executed but the state is active", st)
				} else if rs == am.Canceled {
					rs2 := m.Remove1(st, am.A{"uid": rec.NextUid()})
					check("AskRemove1", rs2 == am.Canceled, "AskRemove1(%s) returned Canceled but Remove1 then returned %s", st, rec.ResStr(rs2))
				}
			}
		case 8:
			// WaitForAll / WaitForAny over already decided channels
			closed := make(chan struct{})
			close(closed)
			open := make(chan struct{})
			var e1, e2, e3 error
			if guarded(res, "WaitForAll", func() {
				e1 = amhelp.WaitForAll(ctx, 20*time.Millisecond, closed, closed)
				e2 = amhelp.WaitForAll(ctx, 20*time.Millisecond, closed, open)
				e3 = amhelp.WaitForAny(ctx, 20*time.Millisecond, open, closed)
			}) {
				check("WaitForAll", e1 == nil, "WaitForAll over closed channels returned %v", e1)
				check("WaitForAll/timeout", e2 != nil, "WaitForAll with an open channel returned nil")
				check("WaitForAny", e3 == nil, "WaitForAny with a closed channel returned %v", e3)
			}
		}
	}
	runWaits(res, check)
	runAsync(res, check)
	runAskBusy(res, r, check)
	runSyncBusy(res, r, check)
	// typed args with a log tag on an unexported field
	type taggedArgs struct {
		Name   string `log:"name"`
		secret string `log:"secret"`
		Count  int    `log:"count"`
	}
	var logMap map[string]string
	if guarded(res, "ArgsToLogMap/unexported-field", func() { logMap = amhelp.ArgsToLogMap(&taggedArgs{Name: "n", secret: "s", Count: 3}, 0) }) {
		check("ArgsToLogMap", logMap["name"] == "n", "ArgsToLogMap of a struct with Name=n gives %v", logMap)
	}
	// disposed machine: the blocking helpers must still return
	md, _ := helperMach()
	md.Dispose()
	select {
	case <-md.WhenDisposed():
	case <-time.After(10 * time.Second):
		res.Inconclusive = "dispose did not complete"
		return
	}
	guarded(res, "CantAdd/disposed", func() { amhelp.CantAdd(md, am.S{"A"}, nil) })
	guarded(res, "CantRemove/disposed", func() { amhelp.CantRemove(md, am.S{"A"}, nil) })
	guarded(res, "AskAdd1/disposed", func() { amhelp.AskAdd1(md, "A", nil) })
	guarded(res, "AddSync/disposed", func() { amhelp.AddSync(ctx, md, am.S{"A"}) })
	res.Evals += 4
}

// runAskBusy: the Cant* / Ask* helpers and the raw CanAdd + ACheck protocol
// asked while a handler holds the queue: the answer then arrives through
// CheckDone / ACheck.Canceled instead of the synchronous result, and has to
// be the same one. V's Enter handler and X's Exit handler veto.
func runAskBusy(res *core.CaseResult, r *rand.Rand, check func(string, bool, string, ...any)) {
	states := []string{"A", "B", "V", "X"}
	for trial := 0; trial < 6; trial++ {
		tr := rec.NewTracer("rec")
		m := am.New(context.Background(), am.Schema{"A": {}, "B": {Multi: true}, "V": {}, "X": {}, "H": {}},
			&am.Opts{Id: "c20b", DontLogId: true, DontLogStackTrace: true, Tracers: []am.Tracer{tr}, HandlerTimeout: 30 * time.Second})
		entered := make(chan struct{})
		gate := make(chan struct{})
		_, _ = m.HandlersBindMaps(map[string]am.HandlerNegotiation{
			"VEnter": func(e *am.Event) bool { return false },
			"XExit":  func(e *am.Event) bool { return false },
		}, map[string]am.HandlerFinal{
			"HState": func(e *am.Event) {
				close(entered)
				select {
				case <-gate:
				case <-time.After(20 * time.Second):
				}
			},
		})
		m.Add1("X", nil)
		sub := am.S(gen.RandSubset(r, states, false))
		go m.Add1("H", nil)
		select {
		case <-entered:
		case <-time.After(10 * time.Second):
			res.Inconclusive = "the holding handler was not entered"
			close(gate)
			m.Dispose()
			return
		}
		kind := []string{"CantAdd", "CantRemove", "CanAdd+ACheck", "CanRemove+ACheck"}[r.IntN(4)]
		var cant bool
		var syncRes am.Result
		done := make(chan struct{})
		go func() {
			defer close(done)
			switch kind {
			case "CantAdd":
				cant = amhelp.CantAdd(m, sub, nil)
			case "CantRemove":
				cant = amhelp.CantRemove(m, sub, nil)
			default:
				ac := &am.ACheck{CheckDone: make(chan struct{})}
				if kind == "CanAdd+ACheck" {
					syncRes = m.CanAdd(sub, am.Pass(ac))
				} else {
					syncRes = m.CanRemove(sub, am.Pass(ac))
				}
				if syncRes == am.Canceled {
					cant = true
					return
				}
				<-ac.CheckDone
				cant = ac.Canceled
			}
		}()
		// the question has to be waiting behind the held handler before the gate opens
		queued := false
		for i := 0; i < 2000; i++ {
			if m.QueueLen() > 0 {
				queued = true
				break
			}
			select {
			case <-done:
				i = 2000
			case <-time.After(time.Millisecond):
			}
		}
		close(gate)
		select {
		case <-done:
		case <-time.After(15 * time.Second):
			res.Violate("C20/blocked/"+kind+"/busy-queue", kind+" asked while a handler held the queue did not return within 15s after the handler was released", nil)
			m.Dispose()
			return
		}
		if queued {
			res.Count("questions_answered_through_CheckDone", 1)
		}
		add := strings.Contains(kind, "Add")
		// what the same mutation does now (nothing else ran in between)
		var rs am.Result
		if add {
			rs = m.Add(sub, am.A{"uid": rec.NextUid()})
		} else {
			rs = m.Remove(sub, am.A{"uid": rec.NextUid()})
		}
		name := kind + "/busy-queue"
		check(name, !cant || rs == am.Canceled, "%s(%v) asked behind a held queue answered impossible, the same mutation then returned %s", kind, sub, rec.ResStr(rs))
		if add && slices.Contains(sub, "V") {
			check(name+"/veto", cant, "%s(%v) asked behind a held queue answered possible although VEnter vetoes (the mutation itself returned %s)", kind, sub, rec.ResStr(rs))
		}
		if !add && slices.Contains(sub, "X") {
			check(name+"/veto", cant, "%s(%v) asked behind a held queue answered possible although XExit vetoes (the mutation itself returned %s)", kind, sub, rec.ResStr(rs))
		}
		m.Dispose()
	}
}

// runSyncBusy: AddSync / RemoveSync (and the single-state forms) called while
// a handler holds the queue, so that the mutation is queued and the helper has
// to wait for it and look at what happened; with a live and with a nil context
// ("nil or live context" are both allowed by the signature). And CanRemove1
// with args a negotiation handler decides by.
func runSyncBusy(res *core.CaseResult, r *rand.Rand, check func(string, bool, string, ...any)) {
	for trial := 0; trial < 8; trial++ {
		m := am.New(context.Background(), am.Schema{"A": {}, "V": {}, "X": {}, "G": {}, "H": {}},
			&am.Opts{Id: "c20s", DontLogId: true, DontLogStackTrace: true, HandlerTimeout: 30 * time.Second})
		entered := make(chan struct{})
		gate := make(chan struct{})
		_, _ = m.HandlersBindMaps(map[string]am.HandlerNegotiation{
			"VEnter": func(e *am.Event) bool { return false },
			"XExit":  func(e *am.Event) bool { return false },
			// G leaves only when asked with force
			"GExit": func(e *am.Event) bool { return e.Args["force"] == true },
		}, map[string]am.HandlerFinal{
			"HState": func(e *am.Event) {
				close(entered)
				select {
				case <-gate:
				case <-time.After(20 * time.Second):
				}
			},
		})
		m.Add(am.S{"X", "G"}, nil)
		// idle: the single-state check passes its args on
		if trial == 0 {
			check("CanRemove1/args", m.CanRemove1("G", am.A{"force": true}) != am.Canceled, "CanRemove1(G, {force:true}) is Canceled although GExit accepts a forced removal (Remove1 with the same args returns %s)",
				rec.ResStr(m.Remove1("G", am.A{"force": true})))
			m.Add1("G", nil)
			check("CanRemove1/no-args", m.CanRemove1("G", nil) == am.Canceled, "CanRemove1(G, nil) is not Canceled although GExit rejects an unforced removal")
		}
		go m.Add1("H", nil)
		select {
		case <-entered:
		case <-time.After(10 * time.Second):
			res.Inconclusive = "the holding handler was not entered"
			close(gate)
			m.Dispose()
			return
		}
		kind := []string{"AddSync", "RemoveSync", "Add1Sync", "Remove1Sync"}[trial%4]
		nilCtx := trial >= 4
		var ctx context.Context
		if !nilCtx {
			ctx = context.Background()
		}
		st := []string{"A", "V", "X", "A"}[r.IntN(4)]
		if strings.HasPrefix(kind, "Remove") {
			st = []string{"X", "A", "X"}[r.IntN(3)]
			if st == "A" {
				// make it removable
				st = "G"
			}
		}
		var got bool
		var pan any
		done := make(chan struct{})
		go func() {
			defer close(done)
			defer func() { pan = recover() }()
			switch kind {
			case "AddSync":
				got = amhelp.AddSync(ctx, m, am.S{st})
			case "Add1Sync":
				got = amhelp.Add1Sync(ctx, m, st)
			case "RemoveSync":
				got = amhelp.RemoveSync(ctx, m, am.S{st}, am.A{"force": true})
			case "Remove1Sync":
				got = amhelp.Remove1Sync(ctx, m, st, am.A{"force": true})
			}
		}()
		for i := 0; i < 2000 && m.QueueLen() == 0; i++ {
			select {
			case <-done:
				i = 2000
			case <-time.After(time.Millisecond):
			}
		}
		close(gate)
		name := kind + "/busy-queue"
		if nilCtx {
			name += "/nil-ctx"
		}
		select {
		case <-done:
		case <-time.After(15 * time.Second):
			res.Violate("C20/blocked/"+name, name+" did not return within 15s after the handler was released", nil)
			m.Dispose()
			return
		}
		if pan != nil {
			res.Evals++
			res.Violate("C20/panic/"+name, fmt.Sprintf("%s(%s) queued behind a running handler panicked: %v", kind, st, pan), nil)
			m.Dispose()
			continue
		}
		if strings.HasPrefix(kind, "Add") {
			check(name, got == m.Is1(st), "%s(%s) queued behind a running handler returned %v but Is1 = %v", kind, st, got, m.Is1(st))
		} else {
			check(name, got == m.Not1(st), "%s(%s) queued behind a running handler returned %v but Not1 = %v", kind, st, got, m.Not1(st))
		}
		m.Dispose()
	}
}

// runCopy: values the getters document as copies are the caller's to modify.
func runCopy(res *core.CaseResult, c core.CaseDesc) {
	m, _ := helperMach()
	defer m.Dispose()
	m.Add(am.S{"A", "B"}, nil)
	m.SetTags([]string{"t1", "t2"})
	snap := func() string {
		return fmt.Sprint(m.ActiveStates(nil), m.Time(nil), m.Clock(nil), m.Schema(), m.Tags(), len(m.Queue()), len(m.Tracers()), m.StringAll())
	}
	check := func(name string, before string) {
		res.Evals++
		res.Key("copy", name)
		if after := snap(); after != before {
			res.Violate("C20/copy/"+name, fmt.Sprintf("modifying the value returned by %s changed the machine:\n before %s\n after  %s", name, before, after), nil)
		}
	}
	b := snap()
	as := m.ActiveStates(nil)
	for i := range as {
		as[i] = "ZZZ"
	}
	as = append(as[:0], "Q")
	check("ActiveStates", b)
	sc := m.Schema()
	for k, st := range sc {
		if len(st.Remove) > 0 {
			st.Remove[0] = "ZZZ"
		}
		if len(st.Require) > 0 {
			st.Require[0] = "ZZZ"
		}
		st.Multi = !st.Multi
		sc[k] = st
	}
	sc["New"] = am.State{}
	check("Schema", b)
	cl := m.Clock(nil)
	for k := range cl {
		cl[k] = 999
	}
	check("Clock", b)
	t := m.Time(nil)
	for i := range t {
		t[i] = 999
	}
	check("Time", b)
	tg := m.Tags()
	for i := range tg {
		tg[i] = "zzz"
	}
	check("Tags", b)
	q := m.Queue()
	q = append(q, nil)
	_ = q
	check("Queue", b)
	trs := m.Tracers()
	for i := range trs {
		trs[i] = nil
	}
	check("Tracers", b)
	ser, sch, err := m.Export()
	if err == nil && ser != nil {
		for i := range ser.Time {
			ser.Time[i] = 999
		}
		for i := range ser.StateNames {
			ser.StateNames[i] = "ZZZ"
		}
		for k, st := range sch {
			if len(st.Remove) > 0 {
				st.Remove[0] = "ZZZ"
			}
			if len(st.Require) > 0 {
				st.Require[0] = "ZZZ"
			}
			sch[k] = st
		}
		check("Export", b)
	}
	// the machine still behaves: D removes A (Remove relation intact)
	m.Add1("D", nil)
	res.Evals++
	if m.Is1("A") {
		res.Violate("C20/copy/relations-corrupted", "after editing returned copies, adding D no longer removes A", nil)
	}
	// Schema algebra helpers must not write into their receiver
	s0 := m.Schema()
	before := fmt.Sprint(s0)
	_ = s0.Prefix("Foo", true, nil, nil)
	res.Evals++
	if fmt.Sprint(s0) != before {
		res.Violate("C20/copy/Schema.Prefix-mutates-receiver", "Schema.Prefix changed its receiver", nil)
	}
}

// runJSON: integration handlers with valid requests.
func runJSON(res *core.CaseResult, c core.CaseDesc) {
	m, _ := helperMach()
	defer m.Dispose()
	ctx := context.Background()
	guarded(res, "HandlerMutation", func() {
		req := amint.NewMutationReq()
		req.Add = am.S{"A", "B"}
		resp, err := amint.HandlerMutation(ctx, m, req)
		res.Evals++
		if err != nil || resp == nil || resp.Result != am.Executed || !m.Is(am.S{"A", "B"}) {
			res.Violate("C20/json/HandlerMutation", fmt.Sprintf("add A,B: resp %v err %v active %v", resp, err, m.ActiveStates(nil)), nil)
		}
		req = amint.NewMutationReq()
		req.Remove = am.S{"B"}
		resp, err = amint.HandlerMutation(ctx, m, req)
		res.Evals++
		if err != nil || resp == nil || !m.Not1("B") {
			res.Violate("C20/json/HandlerMutation", fmt.Sprintf("remove B: resp %v err %v", resp, err), nil)
		}
	})
	guarded(res, "HandlerGetter", func() {
		req := amint.NewGetterReq()
		req.Id, req.Tags, req.Export = true, true, true
		req.Time = am.S{"A", "B"}
		req.Clocks = am.S{"A"}
		req.TimeSum = am.S{"A", "B"}
		resp, err := amint.HandlerGetter(ctx, m, req)
		res.Evals++
		if err != nil || resp == nil || resp.Id != m.Id() || !slices.Equal(resp.Time, m.Time(am.S{"A", "B"})) || resp.Clocks["A"] != m.Tick("A") {
			res.Violate("C20/json/HandlerGetter", fmt.Sprintf("resp %+v err %v", resp, err), nil)
		}
	})
	guarded(res, "HandlerWaiting", func() {
		req := amint.NewWaitingReq()
		req.States = am.S{"A"}
		cx, cancel := context.WithTimeout(ctx, 5*time.Second)
		defer cancel()
		resp, err := amint.HandlerWaiting(cx, m, req)
		res.Evals++
		if err != nil || resp == nil {
			res.Violate("C20/json/HandlerWaiting", fmt.Sprintf("waiting for an active state: resp %v err %v", resp, err), nil)
		}
		req = amint.NewWaitingReq()
		req.StatesNot = am.S{"B"}
		resp, err = amint.HandlerWaiting(cx, m, req)
		res.Evals++
		if err != nil || resp == nil {
			res.Violate("C20/json/HandlerWaiting", fmt.Sprintf("waiting for an inactive state: resp %v err %v", resp, err), nil)
		}
		req = amint.NewWaitingReq()
		req.States = am.S{"A"}
		req.Time = am.Time{1}
		resp, err = amint.HandlerWaiting(cx, m, req)
		res.Evals++
		if err != nil || resp == nil {
			res.Violate("C20/json/HandlerWaiting", fmt.Sprintf("waiting for a passed time: resp %v err %v", resp, err), nil)
		}
	})
	res.Key("json", 1)
	res.Key("json", 2)
}

// runWaits: WaitForAll / WaitForAny / WaitForErrAll / WaitForErrAny return
// according to what happened: nil only when the channels closed, the error
// of the machine when it has one, ErrTimeout otherwise - and the timeout is
// one deadline for the whole call.
func runWaits(res *core.CaseResult, check func(name string, ok bool, what string, args ...any)) {
	ctx := context.Background()
	closed := make(chan struct{})
	close(closed)
	open := make(chan struct{})
	for rep := 0; rep < 6; rep++ {
		// no channel closes, the machine has no error: a timeout
		m, _ := helperMach()
		var e1, e2, e3, e4, e5, e6 error
		if guarded(res, "WaitForErrAny", func() {
			e1 = amhelp.WaitForErrAny(ctx, 15*time.Millisecond, m, open)
			e2 = amhelp.WaitForErrAny(ctx, time.Second, m, open, closed)
			e3 = amhelp.WaitForErrAll(ctx, 15*time.Millisecond, m, closed, open)
			e4 = amhelp.WaitForErrAll(ctx, time.Second, m, closed, closed)
		}) {
			check("WaitForErrAny/timeout", e1 != nil, "WaitForErrAny returned nil although no channel closed and the machine has no error")
			check("WaitForErrAny/closed", e2 == nil, "WaitForErrAny with a closed channel returned %v", e2)
			check("WaitForErrAll/timeout", e3 != nil, "WaitForErrAll returned nil although a channel stayed open")
			check("WaitForErrAll/closed", e4 == nil, "WaitForErrAll over closed channels returned %v", e4)
		}
		// the machine has an error before the call: it is reported, not a timeout
		m.AddErr(rec.ErrInjected, nil)
		if guarded(res, "WaitForErrAny/err", func() {
			e5 = amhelp.WaitForErrAny(ctx, 5*time.Second, m, open)
			e6 = amhelp.WaitForErrAll(ctx, 5*time.Second, m, open)
		}) {
			check("WaitForErrAny/err", e5 != nil && e5 != am.ErrTimeout, "WaitForErrAny on an errored machine returned %v", e5)
			check("WaitForErrAll/err", e6 != nil && e6 != am.ErrTimeout, "WaitForErrAll on an errored machine returned %v", e6)
		}
		m.Dispose()
	}
	// one deadline for the whole call: c1 closes inside the timeout, c2 after
	// it. A control timer armed with the same timeout at the same moment
	// tells whether this process was scheduled on time; the trial only counts
	// when the control fired close to its deadline.
	const T = 300 * time.Millisecond
	counted, late := 0, 0
	var lateAt time.Duration
	for rep := 0; rep < 3; rep++ {
		c1, c2 := make(chan struct{}), make(chan struct{})
		start := time.Now()
		control := time.After(T)
		var controlAt time.Duration
		cdone := make(chan struct{})
		go func() { <-control; controlAt = time.Since(start); close(cdone) }()
		go func() { time.Sleep(T * 2 / 3); close(c1); time.Sleep(T * 5 / 6); close(c2) }()
		var err error
		if !guarded(res, "WaitForAll/deadline", func() { err = amhelp.WaitForAll(ctx, T, c1, c2) }) {
			return
		}
		<-cdone
		if controlAt > T+T/4 {
			res.Count("waitforall_deadline_trials_discarded_late_timers", 1)
			continue
		}
		counted++
		if err == nil {
			late++
			lateAt = controlAt
		}
	}
	if counted < 2 {
		res.Count("waitforall_deadline_inconclusive", 1)
		return
	}
	// every counted trial has to agree before this timing-dependent scenario
	// reports
	check("WaitForAll/deadline", late < counted, "WaitForAll(timeout %v) returned nil in %d of %d trials although the second channel closed at %v, after the deadline (control timer fired at %v)",
		T, late, counted, T*3/2, lateAt)
}

// runAsync: AddAsync / Add1Async / EvAdd1Async return true exactly when the
// wait state was activated after the call (several rounds on one machine, so
// that the wait state's clock is not zero any more; plain and Multi wait
// states).
func runAsync(res *core.CaseResult, check func(name string, ok bool, what string, args ...any)) {
	for _, multi := range []bool{false, true} {
		var reply atomic.Bool
		m := am.New(context.Background(), am.Schema{"Req": {Multi: true}, "Done": {Multi: multi}, "Other": {}},
			&am.Opts{Id: "c20async", DontLogId: true, DontLogStackTrace: true})
		_, _ = m.HandlersBindMaps(nil, map[string]am.HandlerFinal{
			"ReqState": func(e *am.Event) {
				if reply.Load() {
					go m.Add1("Done", nil)
				}
			},
		})
		for round := 0; round < 6; round++ {
			want := round%2 == 0
			reply.Store(want)
			before := m.Tick("Done")
			ctx, cancel := context.WithTimeout(context.Background(), 150*time.Millisecond)
			if want {
				cancel()
				ctx, cancel = context.WithTimeout(context.Background(), 10*time.Second)
			}
			var got bool
			name := []string{"AddAsync", "Add1Async", "EvAdd1Async"}[round%3]
			ok := guarded(res, name, func() {
				switch name {
				case "AddAsync":
					got = amhelp.AddAsync(ctx, m, "Done", am.S{"Req"})
				case "Add1Async":
					got = amhelp.Add1Async(ctx, m, "Done", "Req")
				default:
					got = amhelp.EvAdd1Async(ctx, nil, m, "Done", "Req")
				}
			})
			cancel()
			if !ok {
				break
			}
			after := m.Tick("Done")
			activated := after > before && am.IsActiveTick(after) || after >= before+2
			check(name, got == want && (!got || activated), "%s(wait Done, add Req) = %v in round %d (multi=%v): the wait state was activated after the call = %v (tick %d -> %d), a reply was scheduled = %v",
				name, got, round, multi, activated, before, after, want)
			// settle and reset for the next round (a plain wait state has to
			// go inactive to be activated again)
			time.Sleep(5 * time.Millisecond)
			if !multi {
				m.Remove1("Done", nil)
			}
		}
		m.Dispose()
	}
}
