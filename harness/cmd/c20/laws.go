package main

import (
	"fmt"
	"slices"
	"sort"
	"strings"

	am "github.com/pancsta/asyncmachine-go/pkg/machine"

	"verif/core"
	"verif/gen"
)

func setOf(l []string) map[string]bool {
	m := map[string]bool{}
	for _, x := range l {
		m[x] = true
	}
	return m
}

func sameSet(a, b []string) bool {
	sa, sb := setOf(a), setOf(b)
	if len(sa) != len(sb) {
		return false
	}
	for k := range sa {
		if !sb[k] {
			return false
		}
	}
	return true
}

func hasDups(l []string) bool { return len(setOf(l)) != len(l) }

func sorted(l []string) string {
	c := slices.Clone(l)
	sort.Strings(c)
	return strings.Join(c, ",")
}

// runLaws checks the state-list and time algebra against set-theoretic
// references.
func runLaws(res *core.CaseResult, c core.CaseDesc) {
	r := gen.NewRand(c.Seed, 20)
	univ := []string{"A", "B", "C", "D", "E", "F"}
	rs := func() am.S {
		var s am.S
		n := r.IntN(6)
		for i := 0; i < n; i++ {
			s = append(s, univ[r.IntN(len(univ))])
		}
		return s
	}
	law := func(name string, ok bool, what string, args ...any) {
		res.Evals++
		res.Key("law", name)
		if !ok {
			res.Violate("C20/law/"+name, fmt.Sprintf("%s: %s", name, fmt.Sprintf(what, args...)), nil)
		}
	}
	for it := 0; it < 60; it++ {
		a, b, cc := rs(), rs(), rs()
		ua := am.S(a).Unique()
		// Delete removes. The receiver is a duplicate-free list (state lists
		// are sets; which copy of a repeated name goes is not specified).
		d := ua.Delete(b)
		wantD := []string{}
		for _, x := range a {
			if !slices.Contains(b, x) {
				wantD = append(wantD, x)
			}
		}
		law("S.Delete", sameSet(d, wantD) && !hasDups(d), "%v.Delete(%v) = %v, want the elements of the first not in the second %v", ua, b, d, wantD)
		d2 := ua.Delete(b, cc)
		wantD2 := []string{}
		for _, x := range a {
			if !slices.Contains(b, x) && !slices.Contains(cc, x) {
				wantD2 = append(wantD2, x)
			}
		}
		law("S.Delete/2", sameSet(d2, wantD2), "%v.Delete(%v, %v) = %v, want %v", ua, b, cc, d2, wantD2)
		if len(b) > 0 {
			d1 := ua.Delete1(b[0])
			want1 := []string{}
			for _, x := range a {
				if x != b[0] {
					want1 = append(want1, x)
				}
			}
			law("S.Delete1", sameSet(d1, want1), "%v.Delete1(%q) = %v, want %v", ua, b[0], d1, want1)
		}
		sr := am.SRem(ua, b)
		law("SRem", sameSet(sr, wantD), "SRem(%v, %v) = %v, want %v", ua, b, sr, wantD)
		// Add unions without duplicates
		u := am.S(a).Add(b)
		law("S.Add", sameSet(u, append(slices.Clone(a), b...)) && (!hasDups(u) || len(b) == 0 && hasDups(a)),
			"%v.Add(%v) = %v (union without duplicates expected)", a, b, u)
		if len(b) > 0 {
			law("S.Add/dedup", !hasDups(u), "%v.Add(%v) = %v has duplicates", a, b, u)
		}
		u1 := am.S(a).Add1(b...)
		law("S.Add1", sameSet(u1, append(slices.Clone(a), b...)) && !hasDups(u1), "%v.Add1(%v...) = %v", a, b, u1)
		sa := am.SAdd(a, b, cc)
		law("SAdd", sameSet(sa, append(append(slices.Clone(a), b...), cc...)) && !hasDups(sa), "SAdd(%v,%v,%v) = %v", a, b, cc, sa)
		// Sub / Shared / Equal
		sub := am.S(a).Sub(b)
		law("S.Sub", sameSet(sub, wantD), "%v.Sub(%v) = %v, want %v", a, b, sub, wantD)
		sh := am.S(a).Shared(b)
		wantS := []string{}
		for _, x := range a {
			if slices.Contains(b, x) {
				wantS = append(wantS, x)
			}
		}
		law("S.Shared", sameSet(sh, wantS), "%v.Shared(%v) = %v, want %v", a, b, sh, wantS)
		law("S.Equal", am.S(a).Equal(b) == sameSet(a, b), "%v.Equal(%v) = %v, sets equal = %v", a, b, am.S(a).Equal(b), sameSet(a, b))
		law("StatesEqual", am.StatesEqual(a, b) == sameSet(a, b), "StatesEqual(%v,%v) = %v", a, b, am.StatesEqual(a, b))
		law("StatesDiff", sameSet(am.StatesDiff(a, b), wantD), "StatesDiff(%v,%v) = %v", a, b, am.StatesDiff(a, b))
		law("StatesShared", sameSet(am.StatesShared(a, b), wantS), "StatesShared(%v,%v) = %v", a, b, am.StatesShared(a, b))
		law("S.Unique", sameSet(ua, a) && !hasDups(ua), "%v.Unique() = %v", a, ua)
		law("S.Has", len(a) == 0 || am.S(a).Has(a[0]), "%v.Has(%q) false", a, "first")
		// Index / FilterIndex round trip on a duplicate-free list
		idx := am.S(univ).Index(ua)
		back := am.S(univ).FilterIndex(idx)
		law("S.Index/FilterIndex", am.S(back).EqualOrder(ua), "FilterIndex(Index(%v)) = %v", ua, back)
	}
	// ParseStates drops unknown names (and duplicates)
	m := newWorld("fresh")
	defer func() { m.m.Dispose(); m.cancel() }()
	for it := 0; it < 20; it++ {
		in := rs()
		if r.IntN(2) == 0 {
			in = append(in, "Nope", "Unknown1")
		}
		if r.IntN(2) == 0 && len(in) > 0 {
			in = append(in, in[0])
		}
		got := m.m.ParseStates(in)
		var want []string
		for _, x := range in {
			if slices.Contains(userStates, x) && !slices.Contains(want, x) {
				want = append(want, x)
			}
		}
		kind := "no-dups"
		if hasDups(in) {
			kind = "with-dups"
		}
		law("Machine.ParseStates/"+kind, sameSet(got, want) && !hasDups(got), "ParseStates(%v) = %v, want the known names without duplicates %v", in, got, want)
	}
	// Time algebra
	for it := 0; it < 40; it++ {
		n := 1 + r.IntN(6)
		t := make(am.Time, n)
		for i := range t {
			t[i] = uint64(r.IntN(6))
		}
		var actAll []int
		var sum uint64
		for i, v := range t {
			sum += v
			if v%2 == 1 {
				actAll = append(actAll, i)
			}
		}
		law("Time.Sum", t.Sum(nil) == sum, "%v.Sum(nil) = %d want %d", t, t.Sum(nil), sum)
		got := t.ActiveStates(nil)
		law("Time.ActiveStates/nil", fmt.Sprint(got) == fmt.Sprint(actAll) || len(got) == 0 && len(actAll) == 0, "%v.ActiveStates(nil) = %v want %v", t, got, actAll)
		// restricted to a subset of indexes
		var sub []int
		for i := range t {
			if r.IntN(2) == 0 {
				sub = append(sub, i)
			}
		}
		if len(sub) > 0 {
			var want []int
			for _, i := range sub {
				if t[i]%2 == 1 {
					want = append(want, i)
				}
			}
			g := t.ActiveStates(sub)
			law("Time.ActiveStates/idxs", fmt.Sprint(g) == fmt.Sprint(want) || len(g) == 0 && len(want) == 0,
				"%v.ActiveStates(%v) = %v, want the active ones among the given indexes %v", t, sub, g, want)
			var ssum uint64
			for _, i := range sub {
				ssum += t[i]
			}
			law("Time.Sum/idxs", t.Sum(sub) == ssum, "%v.Sum(%v) = %d want %d", t, sub, t.Sum(sub), ssum)
			f := t.Filter(sub)
			okF := len(f) == len(sub)
			for k, i := range sub {
				if okF && f[k] != t[i] {
					okF = false
				}
			}
			law("Time.Filter", okF, "%v.Filter(%v) = %v", t, sub, f)
		}
		for i := range t {
			law("Time.Is1", t.Is1(i) == (t[i]%2 == 1), "%v.Is1(%d) = %v", t, i, t.Is1(i))
		}
		nt := am.NewTime(t, actAll)
		okN := len(nt) == len(t)
		for i := range nt {
			if okN && (nt[i] == 1) != (t[i]%2 == 1) {
				okN = false
			}
		}
		law("NewTime", okN, "NewTime(%v, %v) = %v", t, actAll, nt)
		// by name: Sum is additive over disjoint selections, the empty selection
		// (written S{}, or left by Sub / Shared) included
		index := am.S{"A", "B", "C", "D", "E", "F"}[:n]
		ti := am.TimeIndex{Time: t, Index: index}
		var x, y am.S
		for _, nme := range index {
			switch r.IntN(3) {
			case 0:
				x = append(x, nme)
			case 1:
				y = append(y, nme)
			}
		}
		if x == nil {
			x = am.S{}
		}
		if it%4 == 0 {
			y = x.Sub(x) // empty
		}
		union := append(slices.Clone(x), y...)
		law("TimeIndex.Sum/additive", ti.Sum(x)+ti.Sum(y) == ti.Sum(union) || len(union) == 0,
			"%v: Sum(%v)=%d + Sum(%v)=%d != Sum(%v)=%d", t, x, ti.Sum(x), y, ti.Sum(y), union, ti.Sum(union))
		law("TimeIndex.Sum/empty", ti.Sum(am.S{}) == 0, "%v.Sum(S{}) = %d, want 0", t, ti.Sum(am.S{}))
		law("Time.Sum/Index(empty)", t.Sum(index.Index(am.S{})) == 0, "%v.Sum(index.Index(S{})) = %d, want 0 (index list %v)", t, t.Sum(index.Index(am.S{})), index.Index(am.S{}))
		law("Time.ActiveStates/Index(empty)", len(t.ActiveStates(index.Index(am.S{}))) == 0, "%v.ActiveStates(index.Index(S{})) = %v, want none", t, t.ActiveStates(index.Index(am.S{})))
		var wantX uint64
		for i, nme := range index {
			if slices.Contains(x, nme) {
				wantX += t[i]
			}
		}
		law("TimeIndex.Sum/names", ti.Sum(x) == wantX, "%v.Sum(%v) = %d want %d", t, x, ti.Sum(x), wantX)
		inc := t.Increment(0)
		law("Time.Increment", inc[0] == t[0]+1 && len(inc) == len(t), "%v.Increment(0) = %v", t, inc)
		law("IsActiveTick", am.IsActiveTick(t[0]) == (t[0]%2 == 1), "IsActiveTick(%d)", t[0])
	}
}
