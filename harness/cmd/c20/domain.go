package main

import (
	"context"
	"errors"
	"math/rand/v2"
	"reflect"
	"regexp"
	"time"

	am "github.com/pancsta/asyncmachine-go/pkg/machine"

	"verif/rec"
)

var (
	tCtx     = reflect.TypeOf((*context.Context)(nil)).Elem()
	tErr     = reflect.TypeOf((*error)(nil)).Elem()
	tS       = reflect.TypeOf(am.S{})
	tA       = reflect.TypeOf(am.A{})
	tTime    = reflect.TypeOf(am.Time{})
	tClock   = reflect.TypeOf(am.Clock{})
	tSchema  = reflect.TypeOf(am.Schema{})
	tState   = reflect.TypeOf(am.State{})
	tEvent   = reflect.TypeOf((*am.Event)(nil))
	tResult  = reflect.TypeOf(am.Result(0))
	tPos     = reflect.TypeOf(am.PositionAny)
	tMutType = reflect.TypeOf(am.MutationAdd)
	tTracer  = reflect.TypeOf((*am.Tracer)(nil)).Elem()
	tApi     = reflect.TypeOf((*am.Api)(nil)).Elem()
	tRegexp  = reflect.TypeOf((*regexp.Regexp)(nil))
	tDur     = reflect.TypeOf(time.Duration(0))
	tLogLvl  = reflect.TypeOf(am.LogNothing)
	tAny     = reflect.TypeOf((*any)(nil)).Elem()
)

// which string parameters are not state names
var nonStateString = map[string]string{
	"Machine.Eval/0":            "src",
	"Machine.Log/0":             "msg %v",
	"Machine.InternalLog/1":     "msg",
	"Machine.HandlersDetach/0":  "no-such-binding",
	"Machine.DetachHandlers/0":  "no-such-binding",
	"Machine.TracerDetach/0":    "no-such-tracer",
	"Machine.DetachTracer/0":    "no-such-tracer",
	"Machine.PoolFork/0":        "pool",
	"Machine.PoolSetLimit/0":    "pool",
	"Machine.PoolLimit/0":       "pool",
	"Machine.PoolCount/0":       "pool",
	"S.Prefix/0":                "Foo",
	"S.FilterPrefix/0":          "A",
	"Schema.Prefix/0":           "Foo",
	"Schema.FilterByTag/0":      "tag",
	"Machine.SetId/0":           "c20b",
}

func vals(xs ...any) []reflect.Value {
	var r []reflect.Value
	for _, x := range xs {
		r = append(r, reflect.ValueOf(x))
	}
	return r
}

// domain returns candidate values for parameter idx of recv.method.
func (w *world) domain(recv, method string, idx int, t reflect.Type, variadic bool, r *rand.Rand) []reflect.Value {
	key := recv + "." + method + "/" + string(rune('0'+idx))
	names := w.names
	if variadic {
		// a slice of the element domain: empty, one, two
		el := w.domain(recv, method, idx, t.Elem(), false, r)
		if len(el) == 0 {
			return nil
		}
		mk := func(n int) reflect.Value {
			s := reflect.MakeSlice(t, 0, n)
			for i := 0; i < n; i++ {
				s = reflect.Append(s, el[r.IntN(len(el))])
			}
			return s
		}
		return []reflect.Value{mk(0), mk(1), mk(2)}
	}
	switch t {
	case tS:
		return vals(am.S{}, am.S{names[0]}, am.S{names[1], names[2]}, am.S(append([]string{}, names...)), am.S{names[0], names[0], names[1]},
			am.S{am.StateException})
	case tA:
		return []reflect.Value{reflect.Zero(tA), reflect.ValueOf(am.A{}), reflect.ValueOf(am.A{"k": "v"})}
	case tCtx:
		canceled, cancel := context.WithCancel(context.Background())
		cancel()
		vs := []reflect.Value{reflect.ValueOf(context.Background()), reflect.ValueOf(canceled)}
		if recv == "func" {
			// helpers that wait do so until their context ends: a live context
			// that ends by itself instead of the background one
			live, cancelLive := context.WithTimeout(context.Background(), 300*time.Millisecond)
			_ = cancelLive
			vs = []reflect.Value{reflect.ValueOf(live), reflect.ValueOf(canceled)}
		}
		// nil only where the godoc says "ctx: optional"
		if recv == "Machine" && (len(method) > 4 && method[:4] == "When" || method == "Eval" || method == "NewStateCtx") {
			vs = append(vs, reflect.Zero(tCtx))
		}
		return vs
	case tErr:
		return []reflect.Value{reflect.ValueOf(&rec.ErrInjected).Elem(), reflect.ValueOf(errors.New("e2"))}
	case tTime:
		full := w.m.Time(nil)
		if len(full) == 0 {
			full = make(am.Time, len(names)+1)
		}
		return vals(full, make(am.Time, len(full)), am.Time{})
	case tClock:
		return vals(am.Clock{}, am.Clock{names[0]: 1}, w.m.Clock(nil))
	case tSchema:
		return vals(am.Schema{}, am.Schema{"Q": {}}, w.m.Schema())
	case tState:
		return vals(am.State{}, am.State{Multi: true, Add: am.S{names[0]}})
	case tEvent:
		// an event bound to the machine, an event without a machine, and the
		// event of the running / last handler. (A nil *Event is a caller bug,
		// not an argument value: the methods taking it document a live event.)
		return []reflect.Value{reflect.ValueOf(am.NewEvent(w.m, w.m)), reflect.ValueOf(&am.Event{Name: "AState", MachineId: "x"}),
			reflect.ValueOf(w.live)}
	case tResult:
		return vals(am.Executed, am.Canceled, am.Queued, am.Result(5), am.Result(w.m.QueueTick()+2))
	case tPos:
		return vals(am.PositionAny, am.PositionFirst, am.PositionLast)
	case tMutType:
		return vals(am.MutationAdd, am.MutationRemove, am.MutationSet)
	case tTracer:
		return []reflect.Value{reflect.ValueOf(am.Tracer(&am.TracerNoOp{Id: "c20t"}))}
	case tApi:
		return []reflect.Value{reflect.ValueOf(am.Api(w.m))}
	case tMachine:
		return []reflect.Value{reflect.ValueOf(w.m)}
	case tRegexp:
		return vals(regexp.MustCompile("^A"), regexp.MustCompile(".*"))
	case tDur:
		if key == "func.amhelp.Interval/2" {
			// the tick interval of a time.Ticker has to be positive (time.NewTicker)
			return vals(time.Millisecond, 5*time.Millisecond)
		}
		return vals(time.Duration(0), time.Millisecond)
	case tLogLvl:
		return vals(am.LogNothing, am.LogChanges, am.LogEverything)
	case tAny:
		return []reflect.Value{reflect.ValueOf(&struct{}{}), reflect.ValueOf("x")}
	}
	switch t.Kind() {
	case reflect.String:
		if v, ok := nonStateString[key]; ok {
			return vals(v)
		}
		return vals(names[0], names[1], names[len(names)-1], am.StateException)
	case reflect.Bool:
		return vals(true, false)
	case reflect.Int, reflect.Int8, reflect.Int16, reflect.Int32, reflect.Int64:
		return []reflect.Value{reflect.ValueOf(0).Convert(t), reflect.ValueOf(1).Convert(t), reflect.ValueOf(3).Convert(t)}
	case reflect.Uint, reflect.Uint8, reflect.Uint16, reflect.Uint32, reflect.Uint64:
		return []reflect.Value{reflect.ValueOf(0).Convert(t), reflect.ValueOf(1).Convert(t), reflect.ValueOf(4).Convert(t)}
	case reflect.Func:
		// a function of the right signature that does nothing
		fn := reflect.MakeFunc(t, func(args []reflect.Value) []reflect.Value {
			out := make([]reflect.Value, t.NumOut())
			for i := range out {
				out[i] = reflect.Zero(t.Out(i))
				if t.Out(i).Kind() == reflect.Bool {
					out[i] = reflect.ValueOf(true)
				}
			}
			return out
		})
		return []reflect.Value{fn}
	case reflect.Slice:
		if t.Elem().Kind() == reflect.Int {
			return vals([]int{}, []int{0}, []int{0, 1, 2})
		}
		if t.Elem().Kind() == reflect.String {
			return vals([]string{}, []string{names[0]}, []string{"x", "y"})
		}
		if t.Elem() == tS {
			return vals([]am.S{}, []am.S{{names[0]}}, []am.S{{names[0], names[1]}, {names[2]}})
		}
		return []reflect.Value{reflect.MakeSlice(t, 0, 0)}
	case reflect.Map:
		return []reflect.Value{reflect.MakeMap(t), reflect.Zero(t)}
	case reflect.Ptr:
		// a pointer to a struct: the zero struct (a nil pointer is a caller
		// bug unless the godoc says optional, which the typed cases above cover)
		if t.Elem().Kind() == reflect.Struct {
			return []reflect.Value{reflect.New(t.Elem())}
		}
		return []reflect.Value{reflect.Zero(t)}
	case reflect.Interface:
		if t.NumMethod() == 0 {
			return []reflect.Value{reflect.ValueOf(&struct{}{}), reflect.ValueOf("x")}
		}
		// typed-args values for the ArgsApi-like interfaces
		var vs []reflect.Value
		for _, c := range []any{am.ACheck{}, &am.ACheck{}, am.AException{}, &am.AException{Err: rec.ErrInjected}} {
			if reflect.TypeOf(c).Implements(t) {
				vs = append(vs, reflect.ValueOf(c).Convert(t))
			}
		}
		return vs
	case reflect.Struct:
		return []reflect.Value{reflect.Zero(t)}
	case reflect.Chan:
		return []reflect.Value{reflect.MakeChan(reflect.ChanOf(reflect.BothDir, t.Elem()), 1)}
	}
	return nil
}

// precondition: documented relations between arguments that the per-parameter
// domains cannot express. A tuple outside them is a caller bug, not an input.
//   - IsTime / WasTime: t holds the ticks OF the passed states (parallel
//     lists), so it cannot be longer than them.
//   - Mutation.CalledIndex / StringFromIndex: index is the state-name index
//     the mutation was built against, so it covers every called index.
func (w *world) precondition(recv, method string, rv reflect.Value, tup []reflect.Value) bool {
	switch recv + "." + method {
	case "Machine.IsTime", "Machine.WasTime":
		t := tup[0].Interface().(am.Time)
		states := tup[1].Interface().(am.S)
		n := len(states)
		if states == nil {
			n = len(w.m.StateNames())
			if w.m.IsDisposed() {
				return true
			}
		}
		return len(t) <= n
	case "func.am.NewTime", "func.am.NewTimeIndex":
		// the active indexes point into the index list
		n := tup[0].Len()
		for _, i := range tup[1].Interface().([]int) {
			if i >= n {
				return false
			}
		}
	case "Mutation.CalledIndex", "Mutation.StringFromIndex":
		mut := rv.Interface().(*am.Mutation)
		index := tup[0].Interface().(am.S)
		for _, c := range mut.Called {
			if c >= len(index) {
				return false
			}
		}
	}
	return true
}
