// C09: the RPC mirror converges - the network machine ends up with the
// source's clocks.
package main

import (
	"context"
	"encoding/json"
	"fmt"
	"math/rand/v2"
	"slices"
	"strings"
	"sync"
	"sync/atomic"
	"time"

	am "github.com/pancsta/asyncmachine-go/pkg/machine"
	arpc "github.com/pancsta/asyncmachine-go/pkg/rpc"
	ssrpc "github.com/pancsta/asyncmachine-go/pkg/rpc/states"

	"verif/core"
	"verif/gen"
	"verif/rec"
	"verif/rpcloop"
)

type eng struct{}

func (eng) Property() string { return "C09" }
func (eng) Level() string    { return "exploration" }
func (eng) Rule() string {
	return "cases: a live Server+Client pair over a harness-controlled loopback proxy per (sync configuration x push interval x fault script): " +
		"{schema, no-schema} x {all, allow-list, skip-list} x {deep, shallow, per-mutation} x PushInterval {0, 1ms, 20ms} x fault {none, cut, " +
		"cut+refuse, stall}. 1-2 goroutines mutate the source locally (incl. canceled and no-op mutations) while one client goroutine issues " +
		"10-25 mutations through the network machine on disjoint states; the fault is injected at a PRNG-chosen point. After the source " +
		"stops: wait until the client is Ready again, then until the system is stable (>=3 'nothing to push' decisions of the server after the " +
		"last change and no bytes in flight; or an explicit Sync when pushes are off), then compare mirror and source on every synchronised " +
		"state. Client-side results are compared with the source's traced transition for the same uid, and an Executed mutation must be visible " +
		"on the mirror at return. Scripted: a mutation reply parked at srv.reply.unlocked while a later push overtakes it; a client Remove " +
		"reaching the source while a local Remove of the same state is parked between applying its target and the server tracer's TransitionEnd; " +
		"a client mutation canceled by the source while a local change is not pushed yet; a source change pushed while the client still negotiates " +
		"its HandshakeDone; a throttled change after the server restarted its listener. Evaluation = one " +
		"client call or one end-state comparison; distinct non-trivial = distinct (config, push interval, fault, history seed)."
}
func (eng) Assumptions() []string {
	return []string{"liveness is restated as: once stable (no further push will be sent without new input) the mirror equals the source; not stable within the watchdog = inconclusive",
		"only states both sides track are compared; shallow mode compares parity/activity",
		"PushInterval=0 disables pushes by documentation: those runs end with an explicit Client.Sync()"}
}

type cfg struct {
	Allow    []string `json:"allow,omitempty"`
	Skip     []string `json:"skip,omitempty"`
	NoSchema bool     `json:"no_schema,omitempty"`
	Shallow  bool     `json:"shallow,omitempty"`
	Muts     bool     `json:"mutations,omitempty"`
	PushMs   int      `json:"push_ms"`
	Fault    string   `json:"fault"`
	Kind     string   `json:"kind"` // conv | reorder
}

func (c cfg) mode() string {
	m := "deep"
	if c.Shallow {
		m = "shallow"
	}
	if c.Muts {
		m = "per-mutation"
	}
	if c.NoSchema {
		m += "/no-schema"
	} else {
		m += "/schema"
	}
	switch {
	case c.Allow != nil:
		m += "/allow-list"
	case c.Skip != nil:
		m += "/skip-list"
	default:
		m += "/all"
	}
	return m
}

func (eng) Cases(seed uint64, tier string) []core.CaseDesc {
	var cs []core.CaseDesc
	rep := 6
	if tier == "thorough" {
		rep = 400
	}
	n := 0
	add := func(c cfg, s uint64) {
		raw, _ := json.Marshal(c)
		cs = append(cs, core.CaseDesc{ID: fmt.Sprintf("%s/%04d", c.Kind, n), Kind: c.Kind, Seed: s, P: raw})
		n++
	}
	r := gen.NewRand(seed, 9)
	for k := 0; k < rep; k++ {
		for _, noSchema := range []bool{false, true} {
			for _, tr := range []int{0, 1, 2} {
				for _, md := range []int{0, 1, 2} {
					for _, push := range []int{0, 1, 20} {
						c := cfg{NoSchema: noSchema, PushMs: push, Kind: "conv"}
						switch tr {
						case 1:
							// every other repetition lists the allowed states in another
							// order than the source declares them
							c.Allow = []string{"A", "C", "D"}
							if k%2 == 1 {
								c.Allow = []string{"D", "A", "C"}
							}
						case 2:
							c.Skip = []string{"B"}
						}
						c.Shallow = md == 1
						c.Muts = md == 2
						// quick: one PRNG-chosen fault per config; thorough cycles through all
						faults := []string{"none", "cut", "cut+refuse", "stall"}
						c.Fault = faults[r.IntN(len(faults))]
						if k > 0 {
							c.Fault = faults[(k+push+md+tr)%len(faults)]
						}
						add(c, seed*1000003+uint64(n))
					}
				}
			}
		}
	}
	for i := 0; i < 6*rep; i++ {
		add(cfg{Kind: "reorder", PushMs: 1, NoSchema: i%2 == 1}, seed*77+uint64(i))
	}
	for i := 0; i < 4*rep; i++ {
		// tight bursts with "instant" pushes; source changes while the link is down
		add(cfg{Kind: "burst", PushMs: -1, NoSchema: i%2 == 1}, seed*79+uint64(i))
		add(cfg{Kind: "downtime", PushMs: []int{1, 20, -1}[i%3], NoSchema: i%2 == 1, Shallow: i%4 == 3}, seed*83+uint64(i))
	}
	// the server's listener fails and is restarted; throttled pushes afterwards
	for i := 0; i < 2; i++ {
		add(cfg{Kind: "lisrestart", PushMs: 300, NoSchema: i%2 == 1}, seed*103+uint64(i))
	}
	// a push that lands while the client is still negotiating its HandshakeDone
	for i := 0; i < 2; i++ {
		add(cfg{Kind: "hswindow", PushMs: []int{-1, 20}[i%2], NoSchema: i%2 == 1}, seed*101+uint64(i))
	}
	// the rpc2 connect event reaches the server after the client's handshake calls
	for i := 0; i < 2; i++ {
		add(cfg{Kind: "lateconnect", PushMs: []int{20, -1}[i%2], NoSchema: i%2 == 1}, seed*107+uint64(i))
	}
	// a canceled client mutation whose reply carries a local change not pushed yet
	for i := 0; i < 4; i++ {
		add(cfg{Kind: "cancelreply", PushMs: 500, NoSchema: i%2 == 1, Shallow: i/2 == 1}, seed*97+uint64(i))
	}
	// a client Remove answered while a local Remove of the same state is in flight
	for i := 0; i < 2; i++ {
		add(cfg{Kind: "inflight", PushMs: 20, NoSchema: i%2 == 1}, seed*89+uint64(i))
	}
	return cs
}

func (eng) CaseTimeout(string) time.Duration { return 3 * time.Minute }

func (eng) Hang(c core.CaseDesc, dump string) *core.Violation {
	blocked, active := core.StableBlock(dump)
	var rpcBlocked []string
	for _, b := range blocked {
		if strings.Contains(b, "pkg/rpc") {
			rpcBlocked = append(rpcBlocked, b)
		}
	}
	if len(rpcBlocked) > 0 && len(active) == 0 {
		return &core.Violation{Sig: "C09/blocked/" + rpcBlocked[0][strings.LastIndex(rpcBlocked[0], ".")+1:], What: fmt.Sprintf(
			"a call through the network machine never returned: parked in %v", rpcBlocked), Witness: dump}
	}
	return nil
}

type callRec struct {
	Op      string `json:"op"`
	Uid     string `json:"uid"`
	Res     string `json:"res"`
	Visible bool   `json:"visible"`
}

func newSource() (*am.Machine, *rec.Tracer, error) {
	schema := am.Schema{"A": {}, "B": {Multi: true}, "C": {}, "D": {Multi: true}, "E": {Require: am.S{"A"}}}
	tr := rec.NewTracer("src")
	tr.NoSample = true
	src := am.New(context.Background(), schema, &am.Opts{Id: "c09src", Tracers: []am.Tracer{tr}, DontLogId: true, DontLogStackTrace: true})
	if err := src.VerifyStates(am.S{"A", "B", "C", "D", "E", am.StateException}); err != nil {
		return nil, nil, err
	}
	return src, tr, nil
}

func tune(c *arpc.Client, s *arpc.Server) {
	c.ConnRetryDelay = 30 * time.Millisecond
	c.ConnRetryBackoff = 100 * time.Millisecond
	c.ConnTimeout = time.Second
	c.CallTimeout = 2 * time.Second
	c.CallRetryDelay = 20 * time.Millisecond
	c.CallRetryBackoff = 100 * time.Millisecond
}

func compareNow(src *am.Machine, c *arpc.Client, shallow bool) string {
	nm := c.NetMach
	for _, s := range c.VerifTracked() {
		st, mt := src.Tick(s), nm.Tick(s)
		if shallow {
			if st%2 != mt%2 || nm.Is1(s) != src.Is1(s) {
				return fmt.Sprintf("%s: source tick %d active %v, mirror tick %d active %v", s, st, src.Is1(s), mt, nm.Is1(s))
			}
			continue
		}
		if st != mt || nm.Is1(s) != src.Is1(s) {
			return fmt.Sprintf("%s: source tick %d active %v, mirror tick %d active %v", s, st, src.Is1(s), mt, nm.Is1(s))
		}
	}
	return ""
}

// compare reports a difference between the source and the mirror only when it
// survives: the quiet period that stabilize saw can be an artefact of a loaded
// machine (a push written by the server and not yet forwarded, read or applied
// because those goroutines were not scheduled). A difference counts when
// nothing moved for 100 consecutive samples, 20 ms apart - no update processed
// by the client, no tick of the mirror or of the source changed - and it is
// still there; a lost update leaves the mirror stale for good, so nothing real
// is lost by waiting.
func compare(src *am.Machine, c *arpc.Client, shallow bool) string {
	if compareNow(src, c, shallow) == "" {
		return ""
	}
	sample := func() [4]uint64 {
		h := am.VerifHookHits()
		return [4]uint64{h["cli.update.accepted"], h["cli.update.rejected"], c.NetMach.Time(nil).Sum(nil), src.Time(nil).Sum(nil)}
	}
	last := sample()
	quiet := 0
	for i := 0; i < 1500 && quiet < 100; i++ {
		time.Sleep(20 * time.Millisecond)
		if compareNow(src, c, shallow) == "" {
			return ""
		}
		if now := sample(); now != last {
			last, quiet = now, 0
		} else {
			quiet++
		}
	}
	return compareNow(src, c, shallow)
}

// stabilize waits until no further push can change the mirror. Returns ""
// when stable, else why not.
func stabilize(p *rpcloop.Pair, cf cfg) string {
	ctx := context.Background()
	// client connected and ready
	deadline := time.Now().Add(20 * time.Second)
	for !p.C.Mach.Is1(ssrpc.ClientStates.Ready) {
		if time.Now().After(deadline) {
			return "client not Ready again (states: " + p.C.Mach.String() + ")"
		}
		time.Sleep(5 * time.Millisecond)
	}
	_ = ctx
	if cf.PushMs == 0 {
		p.C.Sync()
		return ""
	}
	// >=3 'nothing to push' decisions after the last source change, bytes quiet
	base := am.VerifHookHits()["srv.push.nodiff"]
	startDecisions := am.VerifHookHits()["srv.push.nodiff"] + am.VerifHookHits()["srv.push.computed"]
	deadline = time.Now().Add(3 * time.Second)
	lastBytes := p.Proxy.Bytes.Load()
	quiet := 0
	for {
		if time.Now().After(deadline) {
			if quiet >= 3 && am.VerifHookHits()["srv.push.nodiff"]+am.VerifHookHits()["srv.push.computed"] == startDecisions {
				// the server takes no push decision at all any more and the wire
				// is quiet: nothing will change without new input
				return ""
			}
			return fmt.Sprintf("not stable: nodiff decisions %d, bytes %d", am.VerifHookHits()["srv.push.nodiff"]-base, p.Proxy.Bytes.Load())
		}
		time.Sleep(time.Duration(max(cf.PushMs, 0)+2) * time.Millisecond)
		b := p.Proxy.Bytes.Load()
		if b == lastBytes {
			quiet++
		} else {
			quiet = 0
			lastBytes = b
			base = am.VerifHookHits()["srv.push.nodiff"]
		}
		if quiet >= 3 && am.VerifHookHits()["srv.push.nodiff"]-base >= 3 {
			return ""
		}
	}
}

func (eng) Run(c core.CaseDesc, tier string) *core.CaseResult {
	res := &core.CaseResult{Case: c}
	var cf cfg
	_ = json.Unmarshal(c.P, &cf)
	r := gen.NewRand(c.Seed, 99)
	src, tr, err := newSource()
	if err != nil {
		res.Inconclusive = err.Error()
		return res
	}
	am.VerifHookClear()
	am.VerifHookCount("srv.push.nodiff")
	am.VerifHookCount("srv.push.computed")
	am.VerifHookCount("cli.update.accepted")
	am.VerifHookCount("cli.update.rejected")
	defer am.VerifHookClear()
	pushInt := time.Duration(cf.PushMs) * time.Millisecond
	if cf.PushMs < 0 {
		pushInt = time.Nanosecond // "instant" clocks
	}
	tuneFn := tune
	if cf.Kind == "hswindow" {
		// the client's own HandshakeDone takes a while (a user handler on the
		// client machine), and the source changes right after the server's
		// HandshakeDone: the push of that change lands inside the window, on
		// the first connection and on every reconnect
		tuneFn = func(cl *arpc.Client, sv *arpc.Server) {
			tune(cl, sv)
			cl.Mach.HandlerTimeout = 10 * time.Second
			_, _ = cl.Mach.HandlersBindMaps(map[string]am.HandlerNegotiation{
				ssrpc.ClientStates.HandshakeDone + "Enter": func(*am.Event) bool {
					time.Sleep(250 * time.Millisecond)
					return true
				},
			}, nil)
			go func() {
				for k := 0; k < 3; k++ {
					select {
					case <-sv.Mach.When1(ssrpc.ServerStates.HandshakeDone, nil):
					case <-time.After(60 * time.Second):
						return
					}
					time.Sleep(40 * time.Millisecond)
					src.Add1("B", am.A{"uid": rec.NextUid()})
					res.Count("source_changes_right_after_the_servers_handshake", 1)
					select {
					case <-sv.Mach.WhenNot1(ssrpc.ServerStates.HandshakeDone, nil):
					case <-time.After(60 * time.Second):
						return
					}
				}
			}()
		}
	}
	if cf.Kind == "lateconnect" {
		// rpc2 hands the connect event to its subscribers asynchronously: here
		// it arrives after the client's Hello and Handshake have been served
		am.VerifHookSet("srv.onconnect", func() { time.Sleep(300 * time.Millisecond) })
	}
	p, err := rpcloop.NewPair(src, rpcloop.Opts{PushSet: true, PushInterval: pushInt, Tune: tuneFn, ClientReadyOnly: cf.Kind == "lateconnect",
		Client: arpc.ClientOpts{NoSchema: cf.NoSchema, AllowedStates: am.S(cf.Allow), SkippedStates: am.S(cf.Skip),
			SyncShallowClocks: cf.Shallow, SyncMutations: cf.Muts}})
	if err != nil {
		res.Inconclusive = "pair: " + err.Error()
		return res
	}
	defer p.Close()
	switch cf.Kind {
	case "reorder":
		runReorder(res, c, cf, r, src, tr, p)
		return res
	case "burst":
		runBurst(res, c, cf, r, src, p)
		return res
	case "inflight":
		runInflight(res, c, cf, r, src, tr, p)
		return res
	case "cancelreply":
		runCancelReply(res, c, cf, r, src, p)
		return res
	case "hswindow":
		runHsWindow(res, c, cf, r, src, p)
		return res
	case "lateconnect":
		runLateConnect(res, c, cf, r, src, p)
		return res
	case "lisrestart":
		runListenerRestart(res, c, cf, r, src, p)
		return res
	case "downtime":
		runDowntime(res, c, cf, r, src, p)
		return res
	}
	sig := cf.mode() + "/push=" + fmt.Sprint(cf.PushMs) + "ms/" + cf.Fault
	ctxInfo := func(extra map[string]any) map[string]any {
		m := map[string]any{"config": cf, "seed": c.Seed, "tracked": p.C.VerifTracked(), "source": src.StringAll(),
			"mirror": p.C.NetMach.StringAll(), "hooks": am.VerifHookHits(), "client_mach": p.C.Mach.String()}
		for k, v := range extra {
			m[k] = v
		}
		return m
	}

	// workload
	var wg sync.WaitGroup
	nLocal := 1 + r.IntN(2)
	var faultAt atomic.Int32
	faultAt.Store(int32(2 + r.IntN(8)))
	for g := 0; g < nLocal; g++ {
		gr := rand.New(rand.NewPCG(c.Seed, uint64(g)))
		wg.Add(1)
		go func() {
			defer wg.Done()
			for i := 0; i < 15+gr.IntN(25); i++ {
				st := []string{"A", "B", "E"}[gr.IntN(3)]
				switch gr.IntN(4) {
				case 0:
					src.Add1(st, am.A{"uid": rec.NextUid()})
				case 1:
					src.Remove1(st, am.A{"uid": rec.NextUid()})
				case 2:
					src.Add1("E", nil) // canceled when A is inactive
				default:
					src.Remove1(st, nil) // often a no-op: queue tick only
				}
				if gr.IntN(3) == 0 {
					time.Sleep(time.Duration(gr.IntN(3)) * time.Millisecond)
				}
			}
		}()
	}
	var calls []callRec
	clientStates := []string{"C", "D"}
	if cf.Allow != nil {
		clientStates = []string{"C", "D"}
	}
	nCalls := 10 + r.IntN(16)
	wg.Add(1)
	go func() {
		defer wg.Done()
		nm := p.C.NetMach
		for i := 0; i < nCalls; i++ {
			if int32(i) == faultAt.Load() {
				switch cf.Fault {
				case "cut":
					p.Proxy.Cut()
				case "cut+refuse":
					p.Proxy.Refuse(true)
					p.Proxy.Cut()
					go func() { time.Sleep(120 * time.Millisecond); p.Proxy.Refuse(false) }()
				case "stall":
					p.Proxy.Stall(true)
					go func() { time.Sleep(150 * time.Millisecond); p.Proxy.Stall(false) }()
				}
			}
			st := clientStates[r.IntN(len(clientStates))]
			uid := rec.NextUid()
			var rs am.Result
			var op string
			var vis bool
			switch r.IntN(3) {
			case 0, 1:
				op = "add " + st
				rs = nm.Add1(st, am.A{"uid": uid})
				vis = nm.Is1(st)
			default:
				op = "remove " + st
				rs = nm.Remove1(st, am.A{"uid": uid})
				vis = nm.Not1(st)
			}
			calls = append(calls, callRec{op, uid, rec.ResStr(rs), vis})
		}
	}()
	wg.Wait()
	<-src.WhenQueueEnds()

	// results vs the source's own record
	accepted := map[string]bool{}
	seen := map[string]bool{}
	for _, tx := range tr.Snapshot() {
		if tx.Uid != "" {
			seen[tx.Uid] = true
			if tx.Accepted {
				accepted[tx.Uid] = true
			}
		}
	}
	faulty := cf.Fault != "none"
	for _, cl := range calls {
		res.Evals++
		switch cl.Res {
		case "Executed":
			// (a Remove of an inactive state may return Executed without a
			// transition: documented early return)
			if !accepted[cl.Uid] && strings.HasPrefix(cl.Op, "add") {
				res.Violate("C09/result-mismatch/executed-but-not-accepted", fmt.Sprintf(
					"%s through the network machine returned Executed but the source has no accepted transition for it", cl.Op),
					ctxInfo(map[string]any{"call": cl}))
			}
			if !cl.Visible && !faulty {
				sig := "C09/not-visible-at-return/" + cf.mode()
				what := fmt.Sprintf("%s returned Executed but its effect was not visible on the mirror when the call returned", cl.Op)
				if strings.HasPrefix(cl.Op, "remove") && !seen[cl.Uid] {
					// the source ran no transition for it: Remove's early return
					// (state already inactive on the source while a Remove was in
					// flight) answered, and the reply carried the tracer's last
					// snapshot, which is older than the activity Remove looked at
					sig = "C09/not-visible-at-return/remove-answered-by-early-return"
					what += " (the source has no transition for it: answered by Remove's early return while another Remove was in flight)"
				}
				res.Violate(sig, what, ctxInfo(map[string]any{"call": cl}))
			}
		}
		// (Canceled is not judged: the source itself may report Canceled to a
		// caller whose mutation another goroutine drained - the statement only
		// demands that the client returns what the source produced)
	}
	// end state
	why := stabilize(p, cf)
	res.Evals++
	res.Key(cf.mode(), cf.PushMs, cf.Fault, c.Seed)
	if why != "" {
		if strings.HasPrefix(why, "client not Ready") {
			res.Violate("C09/not-reconnected/"+cf.Fault, "20s after the fault ended the client is still not Ready: "+why, ctxInfo(nil))
		} else {
			res.Inconclusive = why
		}
		return res
	}
	if d := compare(src, p.C, cf.Shallow); d != "" {
		res.Violate("C09/diverged/"+sig, "the source stopped changing, the connection is up and the system is stable, but the mirror differs: "+d,
			ctxInfo(map[string]any{"calls": calls}))
	}
	// tail: once everything is in sync, one more source-local change that swaps
	// an active state for an inactive one (the number of active states, and
	// with it a shallow time sum, stays the same), then quiet again
	if len(res.Violations) == 0 {
		act := src.ActiveStates(nil)
		var on, off string
		for _, n := range []string{"B", "C", "D", "A"} {
			if slices.Contains(act, n) && on == "" {
				on = n
			} else if !slices.Contains(act, n) && off == "" {
				off = n
			}
		}
		if on != "" && off != "" {
			next := am.S{off}
			for _, n := range act {
				if n != on && n != am.StateException {
					next = append(next, n)
				}
			}
			src.Set(next, am.A{"uid": rec.NextUid()})
			<-src.WhenQueueEnds()
			res.Evals++
			if why := stabilize(p, cf); why != "" {
				res.Inconclusive = "after the swap: " + why
				return res
			}
			if d := compare(src, p.C, cf.Shallow); d != "" {
				res.Violate("C09/diverged/"+sig+"/after-swap", fmt.Sprintf("after a source-local Set that swapped %s for %s (same number of active states) and a quiet period the mirror differs: %s", on, off, d),
					ctxInfo(map[string]any{"calls": calls}))
			}
			res.Key("swap-tail", cf.mode(), cf.PushMs)
		}
	}
	res.Count("client_calls", int64(len(calls)))
	res.Count("updates_accepted", int64(am.VerifHookHits()["cli.update.accepted"]))
	res.Count("updates_rejected", int64(am.VerifHookHits()["cli.update.rejected"]))
	res.Count("pushes_computed", int64(am.VerifHookHits()["srv.push.computed"]))
	if res.Sample == nil && strings.HasSuffix(c.ID, "0") {
		res.Sample = ctxInfo(map[string]any{"calls": calls})
	}
	return res
}

// runReorder parks a mutation reply after it was computed and lets a later
// push hit the wire first.
func runReorder(res *core.CaseResult, c core.CaseDesc, cf cfg, r *rand.Rand, src *am.Machine, tr *rec.Tracer, p *rpcloop.Pair) {
	gate := make(chan struct{})
	reached := make(chan struct{}, 1)
	var once sync.Once
	am.VerifHookSet("srv.reply.unlocked", func() {
		first := false
		once.Do(func() { first = true })
		if first {
			reached <- struct{}{}
			select {
			case <-gate:
			case <-time.After(10 * time.Second):
			}
		}
	})
	done := make(chan am.Result, 1)
	go func() { done <- p.C.NetMach.Add1("C", am.A{"uid": rec.NextUid()}) }()
	select {
	case <-reached:
	case <-time.After(10 * time.Second):
		res.Inconclusive = "reply gate not reached"
		close(gate)
		return
	}
	// the reply is computed and parked; a local change is pushed meanwhile
	before := am.VerifHookHits()["srv.push.computed"]
	src.Add1("A", nil)
	src.Add1("B", nil)
	overtook := false
	for i := 0; i < 400; i++ {
		if am.VerifHookHits()["srv.push.computed"] > before {
			overtook = true
			break
		}
		time.Sleep(time.Millisecond)
	}
	time.Sleep(5 * time.Millisecond)
	close(gate)
	select {
	case rs := <-done:
		res.Evals++
		if rs != am.Executed {
			res.Violate("C09/reorder/result", "the parked mutation returned "+rec.ResStr(rs), nil)
		}
	case <-time.After(20 * time.Second):
		res.Inconclusive = "parked call did not return"
		return
	}
	why := stabilize(p, cf)
	res.Evals++
	res.Key("reorder", overtook, cf.NoSchema, c.Seed)
	if overtook {
		res.Count("reorder_push_overtook_reply", 1)
	}
	if why != "" {
		res.Inconclusive = why
		return
	}
	if d := compare(src, p.C, false); d != "" {
		res.Violate("C09/diverged/reorder/push-overtakes-reply", "a push computed after a mutation reply reached the client before it; "+
			"once stable the mirror differs: "+d, map[string]any{"config": cf, "source": src.StringAll(), "mirror": p.C.NetMach.StringAll(),
			"hooks": am.VerifHookHits()})
	}
	res.Sample = map[string]any{"kind": "reorder", "push_overtook_reply": overtook}
}

// runBurst: tight bursts of source-local transitions with instant pushes
// (overlapping pushes are skipped and must be compensated), then quiet.
func runBurst(res *core.CaseResult, c core.CaseDesc, cf cfg, r *rand.Rand, src *am.Machine, p *rpcloop.Pair) {
	for round := 0; round < 12; round++ {
		n := 10 + r.IntN(40)
		for i := 0; i < n; i++ {
			st := []string{"A", "B", "C", "D"}[r.IntN(4)]
			if r.IntN(2) == 0 {
				src.Add1(st, nil)
			} else {
				src.Remove1(st, nil)
			}
		}
		why := stabilize(p, cf)
		res.Evals++
		if why != "" {
			res.Inconclusive = why
			return
		}
		if d := compare(src, p.C, false); d != "" {
			res.Violate("C09/diverged/burst/instant-push", fmt.Sprintf(
				"after a burst of %d source transitions with PushInterval=1ns and quiescence the mirror differs: %s", n, d),
				map[string]any{"config": cf, "round": round, "source": src.StringAll(), "mirror": p.C.NetMach.StringAll(), "hooks": am.VerifHookHits()})
			return
		}
	}
	res.Key("burst", cf.NoSchema, c.Seed)
	res.Sample = map[string]any{"kind": "burst", "rounds": 12}
}

// runListenerRestart: the server's listener is closed under it, the server
// restarts it and the client reconnects. Then the source changes twice within
// one push interval (the second change is throttled) and goes quiet: the
// ticker has to deliver the second change.
func runListenerRestart(res *core.CaseResult, c core.CaseDesc, cf cfg, r *rand.Rand, src *am.Machine, p *rpcloop.Pair) {
	interval := time.Duration(cf.PushMs) * time.Millisecond
	burst := func() {
		src.Add1("A", am.A{"uid": rec.NextUid()})
		time.Sleep(interval / 4)
		src.Add1("B", am.A{"uid": rec.NextUid()})
	}
	settle := func() string {
		// whole push intervals pass on a quiet source
		for i := 0; i < 12; i++ {
			time.Sleep(interval)
			if compareNow(src, p.C, cf.Shallow) == "" {
				return ""
			}
		}
		return compare(src, p.C, cf.Shallow)
	}
	// control: before the restart the throttled change arrives
	burst()
	res.Evals++
	if d := settle(); d != "" {
		res.Violate("C09/diverged/throttled-push-not-compensated", "before any fault, 12 push intervals after a throttled change the mirror differs: "+d,
			map[string]any{"config": cf, "source": src.StringAll(), "mirror": p.C.NetMach.StringAll()})
		return
	}
	lis := p.S.Listener.Load()
	if lis == nil {
		res.Inconclusive = "no listener"
		return
	}
	_ = (*lis).Close()
	for i := 0; i < 5000 && p.C.Mach.Is1(ssrpc.ClientStates.Ready); i++ {
		time.Sleep(time.Millisecond)
	}
	if p.C.Mach.Is1(ssrpc.ClientStates.Ready) {
		res.Inconclusive = "the client did not notice the listener failure"
		return
	}
	deadline := time.Now().Add(30 * time.Second)
	for !(p.C.Mach.Is1(ssrpc.ClientStates.Ready) && p.S.Mach.Is1(ssrpc.ServerStates.Ready)) {
		if time.Now().After(deadline) {
			res.Inconclusive = "no reconnect after the listener restart (client " + p.C.Mach.String() + ", server " + p.S.Mach.String() + ")"
			return
		}
		time.Sleep(5 * time.Millisecond)
	}
	time.Sleep(2 * interval)
	burst()
	res.Evals++
	res.Count("listener_restarts", 1)
	if d := settle(); d != "" {
		res.Violate("C09/diverged/throttled-push-not-compensated/after-listener-restart", fmt.Sprintf(
			"after the server restarted its listener and the client reconnected, the source changed twice within one push interval and went quiet; "+
				"12 push intervals (%v each) later the mirror differs: %s", interval, d),
			map[string]any{"config": cf, "source": src.StringAll(), "mirror": p.C.NetMach.StringAll(), "hooks": am.VerifHookHits()})
		return
	}
	res.Key("lisrestart", cf.NoSchema)
}

// runHsWindow: see the tune function of this kind in Run. After the first
// connection, and after a cut and reconnect, the source is quiet and the
// mirror has to show the change that was pushed inside the window.
func runHsWindow(res *core.CaseResult, c core.CaseDesc, cf cfg, r *rand.Rand, src *am.Machine, p *rpcloop.Pair) {
	for round := 0; round < 2; round++ {
		time.Sleep(400 * time.Millisecond) // the change after the server's handshake has been made
		why := stabilize(p, cf)
		res.Evals++
		if why != "" {
			res.Inconclusive = why
			return
		}
		if d := compare(src, p.C, cf.Shallow); d != "" {
			when := "the first connection"
			if round == 1 {
				when = "a reconnect"
			}
			res.Violate("C09/diverged/push-inside-client-handshake", fmt.Sprintf(
				"the source changed right after the server's HandshakeDone of %s, while the client's own HandshakeDone was still being negotiated; "+
					"with a quiet source and the connection up the mirror differs: %s", when, d),
				map[string]any{"config": cf, "round": round, "source": src.StringAll(), "mirror": p.C.NetMach.StringAll(), "hooks": am.VerifHookHits()})
			return
		}
		if round == 0 {
			p.Proxy.Cut()
			for i := 0; i < 3000 && p.C.Mach.Is1(ssrpc.ClientStates.Ready); i++ {
				time.Sleep(time.Millisecond)
			}
		}
	}
	res.Key("hswindow", cf.NoSchema, cf.PushMs)
}

// runLateConnect: the server learns about the connection (rpc2's OnConnect
// event, delayed at hook srv.onconnect) only after it has served the client's
// handshake. On the first connection and after a cut and reconnect the client
// is Ready, the source changes locally and goes quiet: the mirror has to follow.
func runLateConnect(res *core.CaseResult, c core.CaseDesc, cf cfg, r *rand.Rand, src *am.Machine, p *rpcloop.Pair) {
	for round := 0; round < 2; round++ {
		why := stabilize(p, cf)
		if why != "" {
			res.Inconclusive = why
			return
		}
		if am.VerifHookHits()["srv.onconnect"] < uint64(round+1) {
			res.Inconclusive = "hook srv.onconnect not reached"
			return
		}
		time.Sleep(400 * time.Millisecond) // the delayed connect event has been delivered
		src.Add1([]string{"B", "C"}[round], am.A{"uid": rec.NextUid()})
		<-src.WhenQueueEnds()
		res.Evals++
		if why := stabilize(p, cf); why != "" {
			res.Inconclusive = why
			return
		}
		if d := compare(src, p.C, cf.Shallow); d != "" {
			when := "the first connection"
			if round == 1 {
				when = "a reconnect"
			}
			res.Violate("C09/diverged/connect-event-after-handshake", fmt.Sprintf(
				"on %s the server got rpc2's connect event after it had served the client's handshake; the client is Ready, the source changed locally and went quiet, "+
					"but the mirror differs: %s (server %s)", when, d, p.S.Mach.String()),
				map[string]any{"config": cf, "round": round, "source": src.StringAll(), "mirror": p.C.NetMach.StringAll(), "hooks": am.VerifHookHits()})
			return
		}
		if round == 0 {
			p.Proxy.Cut()
			for i := 0; i < 3000 && p.C.Mach.Is1(ssrpc.ClientStates.Ready); i++ {
				time.Sleep(time.Millisecond)
			}
		}
	}
	res.Key("lateconnect", cf.NoSchema, cf.PushMs)
}

// runCancelReply: the source changes locally and, before the (throttled) push
// of that change, a mutation made through the network machine is canceled by
// the source (E requires the inactive A). The reply is the only message that
// carries the local change; afterwards the source is quiet.
func runCancelReply(res *core.CaseResult, c core.CaseDesc, cf cfg, r *rand.Rand, src *am.Machine, p *rpcloop.Pair) {
	nm := p.C.NetMach
	for round := 0; round < 4; round++ {
		if src.Is1("A") {
			src.Remove1("A", nil)
		}
		if why := stabilize(p, cf); why != "" {
			res.Inconclusive = why
			return
		}
		// a first local change is pushed at once (the last push is long ago);
		// wait until the mirror shows it, so that the push interval starts now
		src.Add1("B", nil)
		for i := 0; i < 2000 && compareNow(src, p.C, cf.Shallow) != ""; i++ {
			time.Sleep(time.Millisecond)
		}
		// further local change(s): throttled, not pushed before the interval is over
		n := 1 + r.IntN(3)
		for i := 0; i < n; i++ {
			st := []string{"B", "C", "D"}[r.IntN(3)]
			if src.Is1(st) && st != "B" && r.IntN(2) == 0 {
				src.Remove1(st, nil)
			} else {
				src.Add1(st, nil)
			}
		}
		rs := nm.Add1("E", am.A{"uid": rec.NextUid()})
		res.Evals++
		if rs == am.Canceled {
			res.Count("canceled_client_mutations_with_a_pending_local_change", 1)
		}
		why := stabilize(p, cf)
		res.Evals++
		if why != "" {
			res.Inconclusive = why
			return
		}
		if d := compare(src, p.C, cf.Shallow); d != "" {
			res.Violate("C09/diverged/after-canceled-reply/"+cf.mode(), fmt.Sprintf(
				"a local change of the source was followed by a client mutation the source answered %s; after quiescence the mirror differs: %s", rec.ResStr(rs), d),
				map[string]any{"config": cf, "round": round, "source": src.StringAll(), "mirror": nm.StringAll(), "hooks": am.VerifHookHits()})
			return
		}
	}
	res.Key("cancelreply", cf.NoSchema, cf.Shallow)
}

// runInflight: a Remove made through the network machine reaches the source
// while a local Remove of the same state is between applying its target and
// the server tracer's TransitionEnd (parked in an earlier tracer's TransitionEnd). Whatever the
// source answers, an Executed reply has to come with the effect visible.
func runInflight(res *core.CaseResult, c core.CaseDesc, cf cfg, r *rand.Rand, src *am.Machine, tr *rec.Tracer, p *rpcloop.Pair) {
	nm := p.C.NetMach
	if rs := nm.Add1("D", am.A{"uid": rec.NextUid()}); rs != am.Executed || !nm.Is1("D") {
		res.Inconclusive = "setup: add D through the mirror returned " + rec.ResStr(rs)
		return
	}
	if why := stabilize(p, cf); why != "" {
		res.Inconclusive = why
		return
	}
	var armed, parked atomic.Bool
	gate := make(chan struct{})
	reached := make(chan struct{})
	// the recording tracer was bound before the server's: parked in its
	// TransitionEnd, the target is applied and the server's tracer has not
	// taken its snapshot yet
	tr.Mx.Lock()
	tr.OnEnd = func(tx *am.Transition, _ *rec.TxRec) {
		if tx.Mutation.Type == am.MutationRemove && armed.CompareAndSwap(true, false) {
			parked.Store(true)
			close(reached)
			select {
			case <-gate:
			case <-time.After(20 * time.Second):
			}
		}
	}
	tr.Mx.Unlock()
	armed.Store(true)
	localDone := make(chan struct{})
	go func() { src.Remove1("D", am.A{"uid": rec.NextUid()}); close(localDone) }()
	select {
	case <-reached:
	case <-time.After(10 * time.Second):
		res.Inconclusive = "the local Remove did not reach TransitionEnd"
		close(gate)
		return
	}
	type ans struct {
		rs  am.Result
		vis bool
	}
	ret := make(chan ans, 1)
	go func() {
		rs := nm.Remove1("D", am.A{"uid": rec.NextUid()})
		ret <- ans{rs, nm.Not1("D")}
	}()
	var a ans
	answeredWhileParked := false
	select {
	case a = <-ret:
		answeredWhileParked = true
		close(gate)
	case <-time.After(1500 * time.Millisecond):
		// the source queued it behind the in-flight transition
		close(gate)
		select {
		case a = <-ret:
		case <-time.After(10 * time.Second):
			res.Inconclusive = "the client Remove did not return"
			return
		}
	}
	<-localDone
	res.Evals++
	res.Count("client_removes_answered_while_a_local_remove_was_in_flight", 1)
	res.Key("inflight", cf.NoSchema, answeredWhileParked)
	if a.rs == am.Executed && !a.vis {
		res.Violate("C09/not-visible-at-return/remove-answered-by-early-return", fmt.Sprintf(
			"remove D through the network machine returned Executed while a local Remove of D was between applying its target and TransitionEnd "+
				"(answered while parked: %v); D was still active on the mirror when the call returned (the source has no transition for it: "+
				"answered by Remove's early return, the reply carried the tracer's last snapshot)", answeredWhileParked),
			map[string]any{"config": cf, "source": src.StringAll(), "mirror": nm.StringAll()})
	}
	if why := stabilize(p, cf); why != "" {
		res.Inconclusive = why
		return
	}
	if d := compare(src, p.C, false); d != "" {
		res.Violate("C09/diverged/inflight", "after quiescence the mirror differs: "+d, map[string]any{"config": cf})
	}
}

// runDowntime: the source changes while the link is down and is quiet
// afterwards; the reconnect alone has to bring the mirror up to date.
func runDowntime(res *core.CaseResult, c core.CaseDesc, cf cfg, r *rand.Rand, src *am.Machine, p *rpcloop.Pair) {
	for _, op := range gen.RandHistory(r, []string{"A", "B", "C", "D"}, []string{"add", "remove"}, 6) {
		rec.Apply(src, op)
	}
	if why := stabilize(p, cf); why != "" {
		res.Inconclusive = why
		return
	}
	// a subscriber on the mirror that the downtime change must wake
	wantD := !src.Is1("D")
	var waiter <-chan struct{}
	if wantD {
		waiter = p.C.NetMach.When1("D", nil)
	} else {
		waiter = p.C.NetMach.WhenNot1("D", nil)
	}
	p.Proxy.Refuse(true)
	p.Proxy.Cut()
	// wait until the client noticed
	for i := 0; i < 2000 && p.C.Mach.Is1(ssrpc.ClientStates.Ready); i++ {
		time.Sleep(time.Millisecond)
	}
	// activity changes while down
	for _, st := range []string{"A", "C"} {
		if src.Is1(st) {
			src.Remove1(st, nil)
		} else {
			src.Add1(st, nil)
		}
	}
	if wantD {
		src.Add1("D", nil)
	} else {
		src.Remove1("D", nil)
	}
	<-src.WhenQueueEnds()
	p.Proxy.Refuse(false)
	why := stabilize(p, cf)
	res.Evals++
	res.Key("downtime", cf.PushMs, cf.NoSchema, cf.Shallow, c.Seed)
	if why != "" {
		if strings.HasPrefix(why, "client not Ready") {
			res.Violate("C09/not-reconnected/downtime", "20s after the link came back the client is still not Ready: "+why, nil)
		} else {
			res.Inconclusive = why
		}
		return
	}
	info := map[string]any{"config": cf, "source": src.StringAll(), "mirror": p.C.NetMach.StringAll(), "mirror_active": p.C.NetMach.ActiveStates(nil)}
	if d := compare(src, p.C, cf.Shallow); d != "" {
		res.Violate("C09/diverged/after-reconnect", "the source changed while the link was down and has been quiet since; after the reconnect the mirror differs: "+d, info)
		return
	}
	select {
	case <-waiter:
	case <-time.After(300 * time.Millisecond):
		res.Violate("C09/waiter-not-woken/after-reconnect", "a When/WhenNot waiter on the mirror for a change that happened while the link was down is still blocked "+
			"although the mirror's clock shows the change", info)
	}
	res.Sample = map[string]any{"kind": "downtime"}
}

func main() { core.Main(eng{}) }
