// C19: shipped schemas are well-formed; exclusive groups and Require closure
// hold in every reachable state.
package main

import (
	"context"
	"encoding/json"
	"fmt"
	"slices"
	"sort"
	"strings"
	"time"

	am "github.com/pancsta/asyncmachine-go/pkg/machine"

	"verif/core"
	"verif/gen"
	"verif/registry"
)

type eng struct{}

func (eng) Property() string { return "C19" }
func (eng) Level() string    { return "exploration" }
func (eng) Rule() string {
	return "cases: one per exported schema variable found by a static scan of /repo (go/parser over every package that builds for " +
		"this platform; nested modules, internal packages and constraint-excluded packages are listed as skipped). Raw schema: Parse, " +
		"undefined relation targets, Require cycles, Require-Remove conflicts, NewCommon with the typed name list. Running machine " +
		"(handlers unbound): breadth-first search from the empty machine with Add1/Remove1 of every state, node = active set, using " +
		"the real machine as transition function (path replay); exhaustive when the search completes below the cap, otherwise the cap " +
		"is reported and (a) each mutual-Remove pair and Require edge is explored exhaustively inside its cone of influence (backward " +
		"closure over Add/Remove/Require edges, plus a synthetic Multi state standing for unrelated changes) and (b) PRNG random walks " +
		"on the full machine check the invariants on every visited set and validate the cone reduction (projected set must be reachable " +
		"in the cone); Require closure is judged by the parsed schema and by the exported one. Evaluation = one explored mutation; distinct non-trivial = distinct (schema, active set) reached."
}
func (eng) Assumptions() []string {
	return []string{
		"node identity is the active set with its first-seen order as representative (order sensitivity is sampled by the random walks)",
		"beyond the BFS cap the cone reduction is validated at run time, not proved; a projection miss is inconclusive, never a violation",
		"handlers unbound, as the statement says",
	}
}

func (eng) CaseTimeout(tier string) time.Duration {
	if tier == "thorough" {
		return 40 * time.Minute
	}
	return 10 * time.Minute
}

func (eng) Cases(seed uint64, tier string) []core.CaseDesc {
	var cs []core.CaseDesc
	for i, e := range registry.Schemas {
		raw, _ := json.Marshal(map[string]any{"i": i})
		cs = append(cs, core.CaseDesc{ID: fmt.Sprintf("schema/%s.%s", e.Pkg, e.Var), Kind: "schema", Seed: seed + uint64(i), P: raw})
	}
	cs = append(cs, core.CaseDesc{ID: "registry", Kind: "registry", Seed: seed})
	return cs
}

type explorer struct {
	schema am.Schema
	names  am.S
	pairs  [][2]string // mutual Remove pairs
	seen   map[string][]mutStep
	order  []string
	transN int64
	capT   int64
	capN   int
	capped bool
	viol   func(sig, what string, w any)
	label  string
}

type mutStep struct {
	Add   bool   `json:"add"`
	State string `json:"s"`
}

func keyOf(active am.S) string {
	c := slices.Clone(active)
	sort.Strings(c)
	return strings.Join(c, ",")
}

func newMach(schema am.Schema, names am.S) *am.Machine {
	m := am.New(context.Background(), schema, &am.Opts{Id: "c19", DontLogId: true, DontLogStackTrace: true})
	if names != nil {
		_ = m.VerifyStates(names)
	}
	return m
}

func (x *explorer) replay(path []mutStep) *am.Machine {
	m := newMach(x.schema, x.names)
	for _, st := range path {
		if st.Add {
			m.Add1(st.State, nil)
		} else {
			m.Remove1(st.State, nil)
		}
	}
	return m
}

// checkSet judges one reachable active set.
func (x *explorer) checkSet(parsed am.Schema, active am.S, path []mutStep) {
	as := map[string]bool{}
	for _, s := range active {
		as[s] = true
	}
	for _, s := range active {
		// what the machine works with, and what the exported schema says (a
		// Require the parser dropped is still written there)
		reqs := slices.Clone(parsed[s].Require)
		for _, r := range x.schema[s].Require {
			if !slices.Contains(reqs, r) {
				reqs = append(reqs, r)
			}
		}
		for _, r := range reqs {
			if !as[r] {
				x.viol("C19/reachable/require-broken/"+x.label+"/"+s+"->"+r, fmt.Sprintf(
					"%s: reachable active set %v has %s active without its Require %s", x.label, active, s, r),
					map[string]any{"path": path, "active": active})
			}
		}
	}
	for _, p := range x.pairs {
		if as[p[0]] && as[p[1]] {
			x.viol("C19/reachable/group-not-exclusive/"+x.label+"/"+p[0]+"+"+p[1], fmt.Sprintf(
				"%s: reachable active set %v contains %s and %s which Remove one another", x.label, active, p[0], p[1]),
				map[string]any{"path": path, "active": active})
		}
	}
}

// bfs explores until done or cap. Returns whether it completed.
func (x *explorer) bfs() bool {
	m0 := newMach(x.schema, x.names)
	parsed := m0.Schema()
	states := m0.StateNames()
	start := keyOf(m0.ActiveStates(nil))
	x.seen = map[string][]mutStep{start: nil}
	x.order = []string{start}
	x.checkSet(parsed, m0.ActiveStates(nil), nil)
	for qi := 0; qi < len(x.order); qi++ {
		path := x.seen[x.order[qi]]
		for _, s := range states {
			for _, add := range []bool{true, false} {
				m := x.replay(path)
				if add {
					m.Add1(s, nil)
				} else {
					m.Remove1(s, nil)
				}
				x.transN++
				act := m.ActiveStates(nil)
				k := keyOf(act)
				if _, ok := x.seen[k]; !ok {
					np := append(slices.Clone(path), mutStep{add, s})
					x.seen[k] = np
					x.order = append(x.order, k)
					x.checkSet(parsed, act, np)
					if len(x.order) >= x.capN {
						x.capped = true
						return false
					}
				}
				if x.capT > 0 && x.transN >= x.capT {
					x.capped = true
					return false
				}
			}
		}
	}
	return true
}

func mutualPairs(schema am.Schema) [][2]string {
	var ps [][2]string
	var names []string
	for n := range schema {
		names = append(names, n)
	}
	sort.Strings(names)
	for i, a := range names {
		for _, b := range names[i+1:] {
			if slices.Contains(schema[a].Remove, b) && slices.Contains(schema[b].Remove, a) {
				ps = append(ps, [2]string{a, b})
			}
		}
	}
	return ps
}

// cone returns the backward closure of targets over "x influences y".
func cone(schema am.Schema, targets []string) []string {
	infl := map[string][]string{} // y -> xs that influence y
	for x, st := range schema {
		for _, y := range st.Add {
			infl[y] = append(infl[y], x)
		}
		for _, y := range st.Remove {
			infl[y] = append(infl[y], x)
			// a Remove also blocks x's own victim from coming back; and the
			// remover is influenced by nothing through this edge
		}
		for _, r := range st.Require {
			infl[x] = append(infl[x], r)
		}
	}
	seen := map[string]bool{}
	stack := slices.Clone(targets)
	for len(stack) > 0 {
		y := stack[len(stack)-1]
		stack = stack[:len(stack)-1]
		if seen[y] {
			continue
		}
		if _, ok := schema[y]; !ok {
			continue
		}
		seen[y] = true
		stack = append(stack, infl[y]...)
	}
	var ret []string
	for s := range seen {
		ret = append(ret, s)
	}
	sort.Strings(ret)
	return ret
}

const tickState = "VerifTick"

// project restricts the schema to keep (+ a synthetic Multi state).
func project(schema am.Schema, keep []string) am.Schema {
	ks := map[string]bool{}
	for _, k := range keep {
		ks[k] = true
	}
	f := func(l am.S) am.S {
		var r am.S
		for _, s := range l {
			if ks[s] {
				r = append(r, s)
			}
		}
		return r
	}
	ret := am.Schema{}
	for _, k := range keep {
		st := schema[k]
		ret[k] = am.State{Auto: st.Auto, Multi: st.Multi, Require: f(st.Require), Add: f(st.Add),
			Remove: f(st.Remove), After: f(st.After)}
	}
	ret[tickState] = am.State{Multi: true}
	return ret
}

func (eng) Run(c core.CaseDesc, tier string) *core.CaseResult {
	res := &core.CaseResult{Case: c}
	if c.Kind == "registry" {
		res.Evals = int64(len(registry.Schemas))
		res.Key("registry", len(registry.Schemas))
		res.Key("skipped", len(registry.Skipped))
		res.Sample = map[string]any{"schemas_found": len(registry.Schemas), "skipped": registry.Skipped}
		if len(registry.Schemas) < 10 {
			res.Violate("C19/registry-too-small", "the static scan found fewer than 10 schemas", nil)
		}
		return res
	}
	var p struct{ I int }
	_ = json.Unmarshal(c.P, &p)
	e := registry.Schemas[p.I]
	label := e.Pkg + "." + e.Var
	viol := func(sig, what string, w any) { res.Violate(sig, what, w) }

	// ---- raw schema
	raw := e.Schema
	if _, err := raw.Parse(); err != nil {
		viol("C19/raw/parse-error/"+label, fmt.Sprintf("%s: Parse: %v", label, err), nil)
	}
	for name, st := range raw {
		for rel, lst := range map[string]am.S{"Require": st.Require, "Add": st.Add, "Remove": st.Remove, "After": st.After} {
			for _, t := range lst {
				if _, ok := raw[t]; !ok && t != am.StateException {
					viol("C19/raw/undefined-target/"+label+"/"+t, fmt.Sprintf(
						"%s: state %s lists %s in %s but the schema does not define it", label, name, t, rel), nil)
				}
			}
		}
		for _, r := range st.Require {
			if slices.Contains(st.Remove, r) {
				viol("C19/raw/require-remove-conflict/"+label+"/"+name, fmt.Sprintf(
					"%s: state %s both Requires and Removes %s", label, name, r), nil)
			}
		}
	}
	// Require cycle (own DFS)
	color := map[string]int{}
	var cyc []string
	var dfs func(s string, stack []string)
	dfs = func(s string, stack []string) {
		color[s] = 1
		for _, r := range raw[s].Require {
			if _, ok := raw[r]; !ok {
				continue
			}
			if color[r] == 1 && cyc == nil {
				cyc = append(slices.Clone(stack), s, r)
			}
			if color[r] == 0 {
				dfs(r, append(stack, s))
			}
		}
		color[s] = 2
	}
	var rawNames []string
	for n := range raw {
		rawNames = append(rawNames, n)
	}
	sort.Strings(rawNames)
	for _, n := range rawNames {
		if color[n] == 0 {
			dfs(n, nil)
		}
	}
	if cyc != nil {
		viol("C19/raw/require-cycle/"+label, fmt.Sprintf("%s: Require cycle %v", label, cyc), nil)
	}
	// typed names
	if e.Names != nil {
		if _, err := am.NewCommon(context.Background(), "c19", raw, e.Names, nil, nil, &am.Opts{DontLogStackTrace: true}); err != nil {
			viol("C19/raw/names-mismatch/"+label, fmt.Sprintf("%s: NewCommon with %s.Names(): %v", label, e.NamesVar, err), nil)
		}
		res.Count("schemas_with_typed_names", 1)
	}
	res.Evals += int64(len(raw))

	// ---- running machine
	capN, capT := 3000, int64(60000)
	walkSteps := 20000
	coneCap, coneCapT := 20000, int64(150000)
	if tier == "thorough" {
		capN, capT, walkSteps, coneCap, coneCapT = 60000, 3000000, 400000, 200000, 4000000
	}
	m0 := newMach(raw, e.Names)
	parsed := m0.Schema()
	x := &explorer{schema: raw, names: e.Names, pairs: mutualPairs(parsed), capN: capN, capT: capT, viol: viol, label: label}
	done := x.bfs()
	res.Evals += x.transN
	for _, k := range x.order {
		res.Key(label, k)
	}
	res.Count("bfs_states", int64(len(x.order)))
	res.Count("bfs_transitions", x.transN)
	if done {
		res.Count("schemas_exhaustive", 1)
	} else {
		res.Count("schemas_capped", 1)
	}
	sample := map[string]any{"schema": label, "states": len(parsed), "mutual_remove_pairs": len(x.pairs),
		"bfs_sets": len(x.order), "bfs_transitions": x.transN, "exhaustive": done}

	if !done {
		// (a) cones
		type inv struct {
			name    string
			targets []string
		}
		var invs []inv
		for _, pr := range x.pairs {
			invs = append(invs, inv{"pair " + pr[0] + "+" + pr[1], []string{pr[0], pr[1]}})
		}
		for _, n := range m0.StateNames() {
			for _, r := range parsed[n].Require {
				invs = append(invs, inv{"require " + n + "->" + r, []string{n, r}})
			}
		}
		type coneRes struct {
			keep []string
			seen map[string][]mutStep
			done bool
		}
		cones := map[string]*coneRes{}
		var coneList []*coneRes
		conesDone, conesCapped := 0, 0
		for _, iv := range invs {
			keep := cone(parsed, iv.targets)
			ck := strings.Join(keep, ",")
			if _, ok := cones[ck]; ok {
				continue
			}
			ps := project(parsed, keep)
			cx := &explorer{schema: ps, pairs: mutualPairs(ps), capN: coneCap, capT: coneCapT, viol: viol, label: label + "[cone " + iv.name + "]"}
			cdone := cx.bfs()
			res.Evals += cx.transN
			cr := &coneRes{keep: keep, seen: cx.seen, done: cdone}
			cones[ck] = cr
			coneList = append(coneList, cr)
			if cdone {
				conesDone++
			} else {
				conesCapped++
			}
			res.Count("cone_states", int64(len(cx.order)))
			res.Count("cone_transitions", cx.transN)
		}
		res.Count("cones_exhaustive", int64(conesDone))
		res.Count("cones_capped", int64(conesCapped))
		sample["cones"] = len(cones)
		sample["cones_exhaustive"] = conesDone

		// (b) random walks on the full machine
		r := gen.NewRand(c.Seed, 19)
		names := m0.StateNames()
		m := newMach(raw, e.Names)
		misses := 0
		var path []mutStep
		for i := 0; i < walkSteps; i++ {
			if i%200 == 0 {
				m = newMach(raw, e.Names)
				path = nil
			}
			s := names[r.IntN(len(names))]
			add := r.IntN(3) > 0
			if add {
				m.Add1(s, nil)
			} else {
				m.Remove1(s, nil)
			}
			path = append(path, mutStep{add, s})
			act := m.ActiveStates(nil)
			x.checkSet(parsed, act, slices.Clone(path))
			res.Evals++
			k := keyOf(act)
			if _, ok := x.seen[k]; !ok {
				x.seen[k] = nil
				res.Key(label, k)
				res.Count("walk_new_states", 1)
			}
			// validate the cone reduction
			for _, cr := range coneList {
				if !cr.done {
					continue
				}
				var proj am.S
				for _, a := range act {
					if slices.Contains(cr.keep, a) {
						proj = append(proj, a)
					}
				}
				found := false
				pk := keyOf(proj)
				if _, ok := cr.seen[pk]; ok {
					found = true
				} else if _, ok := cr.seen[keyOf(append(slices.Clone(proj), tickState))]; ok {
					found = true
				}
				if !found {
					misses++
				}
			}
		}
		res.Count("walk_steps", int64(walkSteps))
		res.Count("cone_projection_misses", int64(misses))
		if misses > 0 {
			res.Inconclusive = fmt.Sprintf("%s: cone reduction not validated (%d projected sets not reachable in their cone)", label, misses)
		}
	}
	res.Sample = sample
	return res
}

func main() { core.Main(eng{}) }
