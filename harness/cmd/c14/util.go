package main

import "runtime"

func runtimeGosched() { runtime.Gosched() }
