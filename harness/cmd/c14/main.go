// C14: tracers see every transition once, in order, with the true times.
package main

import (
	"context"
	"fmt"
	"math/rand/v2"
	"strings"
	"sync"
	"sync/atomic"
	"time"

	am "github.com/pancsta/asyncmachine-go/pkg/machine"

	"verif/core"
	"verif/gen"
	"verif/rec"
	"verif/seq"
)

type eng struct{}

func (eng) Property() string { return "C14" }
func (eng) Level() string    { return "exploration" }
func (eng) Rule() string {
	return "cases: PRNG schema of 2..6 states (Auto, Multi, relations), 1-3 recording tracers bound through Opts.Tracers, 0-2 " +
		"handler bindings that veto and issue follow-up mutations (queued) and checks, 1-8 goroutines each issuing 5-40 ops from " +
		"{add,remove,set,toggle,adderr,canadd,canremove}; yields at the queue schedule points; in a third of the cases 1-2 more tracers " +
		"bound ahead of the recording ones leave mid-run (detach themselves from inside a callback, or are detached by another goroutine " +
		"while their callback lingers); a quarter of the cases have handlers that panic now and then (faulted transitions are judged for the " +
		"order and count of their callbacks only); two machines made from one Opts.Tracers slice. After quiescence the event log of " +
		"every tracer is judged: one Init->Start->(Finals)->End per transition, not interleaved, chain of times, time-after = " +
		"Machine.Time sampled inside TransitionEnd, tracers agree, queued mutations announced. Evaluation = one transition of " +
		"one tracer; distinct non-trivial = distinct (case, transition index) whose transition was queued behind another, auto, " +
		"canceled or check."
}
func (eng) Assumptions() []string {
	return []string{"transitions with handler faults are excluded (none are injected here)",
		"check mutations: TransitionFinals is unconstrained (the statement is silent)"}
}

func (eng) Cases(seed uint64, tier string) []core.CaseDesc {
	n := 400
	if tier == "thorough" {
		n = 600000
	}
	var cs []core.CaseDesc
	for i := 0; i < n; i++ {
		cs = append(cs, core.CaseDesc{ID: fmt.Sprintf("run/%05d", i), Kind: "run", Seed: seed*1000003 + uint64(i)})
	}
	// two machines made from one Opts.Tracers slice
	for i := 0; i < 2; i++ {
		cs = append(cs, core.CaseDesc{ID: fmt.Sprintf("shared-opts/%02d", i), Kind: "shared-opts", Seed: uint64(i)})
	}
	return cs
}

// runSharedOpts: two machines are made from the same Opts.Tracers slice (a
// shared list of tracers is an ordinary way to configure several machines).
// What one machine does to its tracer list - detach (case 0), bind (case 1) -
// must not reach the other: its tracers still get every transition.
func runSharedOpts(res *core.CaseResult, c core.CaseDesc) {
	schema := am.Schema{"A": {}, "B": {}}
	t1, t2 := rec.NewTracer("t1"), rec.NewTracer("t2")
	t1.NoSample, t2.NoSample = true, true
	shared := make([]am.Tracer, 0, 4)
	shared = append(shared, t1, t2)
	m1 := am.New(context.Background(), schema, &am.Opts{Id: "c14so1", DontLogId: true, DontLogStackTrace: true, Tracers: shared})
	m2 := am.New(context.Background(), schema, &am.Opts{Id: "c14so2", DontLogId: true, DontLogStackTrace: true, Tracers: shared})
	defer m1.Dispose()
	defer m2.Dispose()
	x, y := rec.NewTracer("x"), rec.NewTracer("y")
	x.NoSample, y.NoSample = true, true
	var what string
	if c.Seed == 0 {
		what = "m1.DetachTracer(t1)"
		_ = m1.DetachTracer("t1")
	} else {
		what = "m1.BindTracer(x) then m2.BindTracer(y)"
		_, _ = m1.BindTracer(x)
		_, _ = m2.BindTracer(y)
	}
	res.Evals++
	var pan any
	func() {
		defer func() { pan = recover() }()
		m2.Add1("A", nil)
		m1.Add1("B", nil)
	}()
	if pan != nil {
		res.Violate("C14/shared-opts/panic", fmt.Sprintf("after %s a mutation panicked: %v (both machines were made from one Opts.Tracers slice)", what, pan), nil)
		return
	}
	count := func(tr *rec.Tracer, wantUidless int) int { return len(tr.Snapshot()) }
	if c.Seed == 0 {
		// t2 stays bound to both, t1 to m2 only: t2 sees 2 transitions, t1 one
		if n := count(t2, 0); n != 2 {
			res.Violate("C14/shared-opts/tracer-missed", fmt.Sprintf("after %s tracer t2 (bound to both machines) saw %d of their 2 transitions", what, n), nil)
		}
		if n := count(t1, 0); n != 1 {
			res.Violate("C14/shared-opts/tracer-missed", fmt.Sprintf("after %s tracer t1 (still bound to m2) saw %d transitions, want 1", what, n), nil)
		}
	} else {
		if n := count(x, 0); n != 1 {
			res.Violate("C14/shared-opts/tracer-missed", fmt.Sprintf("after %s tracer x (bound to m1 before its mutation) saw %d transitions, want 1", what, n), nil)
		}
		if n := count(y, 0); n != 1 {
			res.Violate("C14/shared-opts/tracer-missed", fmt.Sprintf("after %s tracer y (bound to m2 before its mutation) saw %d transitions, want 1", what, n), nil)
		}
	}
	res.Key("shared-opts", c.Seed)
}

func (eng) Run(c core.CaseDesc, tier string) *core.CaseResult {
	res := &core.CaseResult{Case: c}
	if c.Kind == "shared-opts" {
		runSharedOpts(res, c)
		return res
	}
	r := gen.NewRand(c.Seed, 14)
	spec := gen.RandSchema(r, gen.SchemaOpts{MinStates: 2, MaxStates: 6,
		PRequire: r.Float64() * 0.2, PAdd: r.Float64() * 0.3, PRemove: r.Float64() * 0.3,
		PAfter: r.Float64() * 0.15, PAuto: r.Float64() * 0.3, PMulti: r.Float64() * 0.3})
	nTr := 1 + r.IntN(3)
	// in a third of the cases other tracers, bound ahead of the recording ones,
	// leave mid-run: they detach themselves from inside one of their callbacks
	// or are detached by another goroutine while their (slow) callbacks run.
	// The recording tracers stay and must not miss anything.
	var leavers []*leaver
	if r.IntN(3) == 0 {
		for k := 0; k < 1+r.IntN(2); k++ {
			leavers = append(leavers, &leaver{TracerNoOp: &am.TracerNoOp{}, id: fmt.Sprintf("leaver%d", k),
				at: int32(1 + r.IntN(25)), phase: []string{"end", "init", "start", "finals"}[r.IntN(4)], self: r.IntN(2) == 0})
		}
	}
	var pre []am.Tracer
	for _, l := range leavers {
		pre = append(pre, l)
	}
	mc, trs := seq.New(spec, seq.MachOpts{Tracers: nTr, Pre: pre})
	m := mc.M
	for _, l := range leavers {
		if !l.self {
			ll := l
			ll.reached = make(chan struct{})
			go func() {
				select {
				case <-ll.reached:
					_ = m.DetachTracer(ll.id)
					ll.gone.Store(true)
				case <-time.After(20 * time.Second):
				}
			}()
		}
	}
	nb := r.IntN(3)
	var rmx sync.Mutex
	hr := rand.New(rand.NewPCG(c.Seed, 99))
	pv, pm := r.Float64()*0.15, r.Float64()*0.2
	// a quarter of the cases have handlers that panic now and then
	faulted := map[string]bool{}
	pp := 0.0
	if r.IntN(4) == 0 {
		pp = 0.02 + r.Float64()*0.05
	}
	budget := 20 + r.IntN(60) // handler-issued mutations per case (keeps the workload finite)
	names := rec.AllHandlerNames(gen.Sorted(spec.Names))
	for b := 0; b < nb; b++ {
		var sub []string
		for _, n := range names {
			if r.IntN(3) == 0 {
				sub = append(sub, n)
			}
		}
		_, _ = rec.BindMaps(m, mc.HLog, b, sub, func(hc *rec.HCall, e *am.Event) bool {
			rmx.Lock()
			veto := hr.Float64() < pv
			boom := pp > 0 && hr.Float64() < pp && !e.IsCheck
			mut := hr.Float64() < pm && budget > 0
			if mut {
				budget--
			}
			var op gen.Op
			if mut {
				op = gen.RandOp(hr, spec.Names, []string{"add", "remove", "set", "canadd"})
			}
			rmx.Unlock()
			if mut && !e.IsCheck {
				rec.Apply(e.Machine(), op)
			}
			if boom {
				// a handler fault: the callbacks of the transition still come once
				// and in order (its times are not judged)
				rmx.Lock()
				faulted[e.TransitionId] = true
				rmx.Unlock()
				panic("c14 fault")
			}
			return !veto
		})
	}
	yields := r.IntN(3)
	am.VerifHookClear()
	if yields > 0 {
		y := func() {
			for i := 0; i < yields; i++ {
				runtimeGosched()
			}
		}
		for _, p := range []string{"qm.appended", "pq.cas-lost", "pq.loop-exit", "pq.released", "tx.applied"} {
			am.VerifHookSet(p, y)
		}
	}
	defer am.VerifHookClear()

	nG := 1 + r.IntN(8)
	var wg sync.WaitGroup
	for g := 0; g < nG; g++ {
		h := gen.RandHistory(r, spec.Names, gen.OpKindsAll, 5+r.IntN(36))
		wg.Add(1)
		go func() {
			defer wg.Done()
			for _, op := range h {
				rec.Apply(m, op)
			}
		}()
	}
	wg.Wait()
	<-m.WhenQueueEnds()
	// the queue may be restarted by a late caller; wait until really idle
	for i := 0; i < 1000 && (m.QueueLen() > 0 || m.Transition() != nil); i++ {
		<-m.WhenQueueEnds()
		runtimeGosched()
	}
	final := m.Time(nil)
	ctx := map[string]any{"schema": spec.String(), "tracers": nTr, "bindings": nb, "goroutines": nG}
	if len(leavers) > 0 {
		var ls []string
		for _, l := range leavers {
			ls = append(ls, fmt.Sprintf("%s leaves in its %d. %s callback (self=%v, left=%v)", l.id, l.at, l.phase, l.self, l.gone.Load()))
			if l.gone.Load() {
				res.Count("tracers_detached_mid_run", 1)
			}
		}
		ctx["leaving_tracers_bound_first"] = ls
	}

	var ref []string
	for ti, tr := range trs {
		txs := tr.Snapshot()
		evs := tr.EventsCopy()
		// callbacks per tx
		var last am.Time
		for i, tx := range txs {
			res.Evals++
			want := "ISE"
			if tx.Accepted && !tx.IsCheck {
				want = "ISFE"
			}
			okCb := tx.Callbacks == want || (tx.IsCheck && (tx.Callbacks == "ISE" || tx.Callbacks == "ISFE"))
			isFault := tx.Broken || faulted[tx.TxId]
			if isFault {
				// faulted: still Init, Start, (Finals), End once each and in order
				okCb = tx.Callbacks == "ISE" || tx.Callbacks == "ISFE"
				res.Count("faulted_transitions_judged_for_their_callbacks", 1)
			}
			if !okCb {
				res.Violate("C14/callbacks/"+tx.Callbacks+"-want-"+want, fmt.Sprintf(
					"tracer %d transition %d (%s %v accepted=%v) got callbacks %q, want %q", ti, i, tx.Type, tx.Called,
					tx.Accepted, tx.Callbacks, want), map[string]any{"ctx": ctx, "tx": tx})
			}
			if isFault {
				// the statement's time clauses are for transitions without handler
				// faults; the chain restarts after one
				last = nil
				continue
			}
			if last != nil && !rec.TimeEq(last, tx.Before) {
				res.Violate("C14/chain-broken", fmt.Sprintf("time-before %v != previous time-after %v", tx.Before, last),
					map[string]any{"ctx": ctx, "tx": tx})
			}
			if !rec.TimeEq(tx.After, tx.MachTime) {
				res.Violate("C14/timeafter-vs-machine", fmt.Sprintf(
					"time-after %v != Machine.Time %v sampled in TransitionEnd", tx.After, tx.MachTime),
					map[string]any{"ctx": ctx, "tx": tx})
			}
			if (!tx.Accepted || tx.IsCheck) && !rec.TimeEq(tx.Before, tx.After) {
				res.Violate("C14/canceled-reports-change", "a canceled/check transition reports a time change",
					map[string]any{"ctx": ctx, "tx": tx})
			}
			last = tx.After
			if tx.IsAuto || !tx.Accepted || tx.IsCheck || tx.QueueTick > 0 && i > 0 {
				res.Key(c.Seed, i)
			}
		}
		if last != nil && !rec.TimeEq(last, final) {
			res.Violate("C14/last-report-vs-final-time", fmt.Sprintf(
				"last reported time-after %v != final Machine.Time %v", last, final), ctx)
		}
		// interleaving: between init and end of a tx only its own events
		cur := ""
		for _, ev := range evs {
			switch ev.Kind {
			case "init":
				if cur != "" {
					res.Violate("C14/interleaved", "TransitionInit while another transition was open", ctx)
				}
				cur = ev.TxId
			case "start", "finals":
				if cur != ev.TxId {
					res.Violate("C14/interleaved", "callback of a transition that is not the open one", ctx)
				}
			case "end":
				if cur != ev.TxId {
					res.Violate("C14/interleaved", "TransitionEnd of a transition that is not the open one", ctx)
				}
				cur = ""
			}
		}
		if tr.Overlaps.Load() > 0 {
			res.Violate("C14/concurrent-callbacks", "two transition callbacks of one tracer ran concurrently", ctx)
		}
		// queued announcements: every transition with a uid was announced
		ann := map[string]int{}
		for _, q := range tr.Queued {
			if q.Uid != "" {
				ann[q.Uid]++
			}
		}
		for _, tx := range txs {
			if tx.Uid != "" && !tx.IsAuto && ann[tx.Uid] == 0 {
				res.Violate("C14/not-announced", "a processed mutation had no MutationQueued callback",
					map[string]any{"ctx": ctx, "tx": tx})
			}
		}
		// agreement between tracers
		var ids []string
		for _, tx := range txs {
			ids = append(ids, tx.TxId+":"+tx.Callbacks+":"+fmt.Sprint(tx.After))
		}
		if ti == 0 {
			ref = ids
		} else if strings.Join(ref, "|") != strings.Join(ids, "|") {
			res.Violate("C14/tracers-disagree", fmt.Sprintf("tracer 0 and tracer %d saw different sequences", ti), ctx)
		}
	}
	if mc.HLog.Overlaps.Load() > 0 {
		res.Violate("C14/handler-overlap", "two handlers of one machine overlapped", ctx)
	}
	res.Count("transitions", int64(trs[0].Len()))
	res.Count("handler_calls", int64(mc.HLog.Len()))
	if strings.HasSuffix(c.ID, "/00000") {
		res.Sample = map[string]any{"ctx": ctx, "transitions": trs[0].Len()}
	}
	if nb > 0 {
		m.Dispose()
	}
	return res
}

// leaver is a tracer that leaves mid-run. self: it detaches itself (from a
// goroutine, as pkg/telemetry does after send errors) inside its at-th
// callback of the chosen phase and lingers there for a moment; otherwise that
// callback wakes an outside goroutine that detaches it, and lingers.
type leaver struct {
	*am.TracerNoOp
	id      string
	at      int32
	phase   string
	self    bool
	n       atomic.Int32
	reached chan struct{}
	gone    atomic.Bool
}

func (l *leaver) TracerId() string { return l.id }

func (l *leaver) cb(phase string, tx *am.Transition) {
	if phase != l.phase || l.n.Add(1) != l.at {
		return
	}
	done := make(chan struct{})
	if l.self {
		go func() { _ = tx.Machine.DetachTracer(l.id); l.gone.Store(true); close(done) }()
	} else {
		close(l.reached)
	}
	// linger (not a verdict: only widens the window in which the detach lands
	// while this round of callbacks is still in flight)
	select {
	case <-done:
	case <-time.After(2 * time.Millisecond):
	}
}

func (l *leaver) TransitionInit(tx *am.Transition)   { l.cb("init", tx) }
func (l *leaver) TransitionStart(tx *am.Transition)  { l.cb("start", tx) }
func (l *leaver) TransitionFinals(tx *am.Transition) { l.cb("finals", tx) }
func (l *leaver) TransitionEnd(tx *am.Transition)    { l.cb("end", tx) }

func main() { core.Main(eng{}) }
