// C01: logical clocks - parity = activity, views agree, ticks monotone with the
// documented step.
package main

import (
	"encoding/json"
	"fmt"
	"strings"
	"sync"
	"time"

	am "github.com/pancsta/asyncmachine-go/pkg/machine"

	"verif/core"
	"verif/gen"
	"verif/rec"
	"verif/seq"
)

type eng struct{}

func (eng) Property() string { return "C01" }
func (eng) Level() string    { return "exploration" }

// CaseTimeout: a thorough enumeration batch (every history of length 4 of one
// schema slice) takes minutes when all cores are busy.
func (eng) CaseTimeout(tier string) time.Duration {
	if tier == "thorough" {
		return 15 * time.Minute
	}
	return 2 * time.Minute
}
func (eng) Rule() string {
	return "cases: (a) every schema over <=2 states (Require/Add/Remove pairs, Multi, Auto) x every history of length 3 " +
		"(quick) / 4 (thorough) over {add,remove,set,toggle,canadd,canremove} x every non-empty subset, plus adderr; " +
		"(b) PRNG-sampled schemas of 3..6 states with 1-3 recording handler bindings that veto at random, histories of 30 ops; " +
		"(c) reader stress: 1-8 reader goroutines loop over the single-call snapshot views (StringAll, Time, Clock, Export) while 1-3 " +
		"goroutines mutate, with yields at the tx.applied / tx.before-end schedule points; (d) Export from a machine whose state order was " +
		"shuffled with VerifyStates after a history of 12 ops, Import into a fresh machine of the same schema that has (or has not) already " +
		"handed out StateNames/Index1, views compared with each other and with the exporter's clock, then 12 more judged ops. An evaluation is one judged step (views " +
		"compared + delta rule) or one reader snapshot; distinct non-trivial = distinct (schema, history prefix) with a state change, " +
		"or distinct (reader-run, view, vector) snapshot taken while a transition was in flight."
}
func (eng) Assumptions() []string {
	return []string{
		"handler faults (panic/timeout) are excluded as the statement does; vetoes are included",
		"multi-call views are compared only at quiescence; concurrent readers use single-call snapshot views only",
		"reader snapshots are matched against the chain of TimeAfter vectors recorded by a tracer after the run ended",
	}
}

type enumP struct {
	N   int    `json:"n"`
	Lo  uint64 `json:"lo"`
	Hi  uint64 `json:"hi"`
	Len int    `json:"len"`
}

func mk(id, kind string, seed uint64, p any) core.CaseDesc {
	var raw json.RawMessage
	if p != nil {
		raw, _ = json.Marshal(p)
	}
	return core.CaseDesc{ID: id, Kind: kind, Seed: seed, P: raw}
}

func (eng) Cases(seed uint64, tier string) []core.CaseDesc {
	var cs []core.CaseDesc
	hl := 3
	if tier == "thorough" {
		hl = 4
	}
	cs = append(cs, mk("enum/n1", "enum", seed, enumP{N: 1, Lo: 0, Hi: 1 << gen.EnumBits(1, true), Len: 3}))
	total := uint64(1) << gen.EnumBits(2, true)
	nb := uint64(128)
	for i := uint64(0); i < nb; i++ {
		cs = append(cs, mk(fmt.Sprintf("enum/n2/%03d", i), "enum", seed,
			enumP{N: 2, Lo: i * total / nb, Hi: (i + 1) * total / nb, Len: hl}))
	}
	ns, nr := 300, 200
	if tier == "thorough" {
		ns, nr = 4000, 5000
	}
	for i := 0; i < ns; i++ {
		cs = append(cs, mk(fmt.Sprintf("hist/%05d", i), "hist", seed*1000003+uint64(i), nil))
	}
	for i := 0; i < nr; i++ {
		cs = append(cs, mk(fmt.Sprintf("readers/%05d", i), "readers", seed*7000003+uint64(i), nil))
	}
	ni := 100
	if tier == "thorough" {
		ni = 2000
	}
	for i := 0; i < ni; i++ {
		cs = append(cs, mk(fmt.Sprintf("import/%05d", i), "import", seed*9000011+uint64(i), nil))
	}
	return cs
}

// judgeStep checks one step at quiescence: views agree; new transitions follow
// the delta rule and chain.
func judgeStep(res *core.CaseResult, mc *seq.Mach, from int, lastAfter *am.Time, ctx func() any) {
	m := mc.M
	names := m.StateNames()
	schema := m.Schema()
	res.Evals++
	if d := seq.ViewsDisagree(names, seq.Views(m)); d != "" {
		res.Violate("C01/views-disagree", d, ctx())
	}
	txs := mc.Tr.Snapshot()
	for _, tx := range txs[from:] {
		if tx.Broken {
			continue
		}
		if d := seq.DeltaViolation(schema, names, tx); d != "" {
			sig := "C01/delta"
			if strings.Contains(d, "decreased") {
				sig = "C01/tick-decreased"
			} else if strings.Contains(d, "canceled or check") {
				sig = "C01/canceled-moved"
			}
			res.Violate(sig, d, map[string]any{"tx": tx, "ctx": ctx()})
		}
		// Multi re-entry must tick by 2
		if tx.Accepted && !tx.IsCheck && tx.Type != "remove" {
			for i, n := range names {
				if schema[n].Multi && rec.Has(tx.Called, n) && tx.Before[i]%2 == 1 &&
					tx.After[i]%2 == 1 && tx.After[i]-tx.Before[i] != 2 {
					res.Violate("C01/multi-reentry-step", fmt.Sprintf(
						"called active Multi state %s ticked by %d, documented +2", n,
						tx.After[i]-tx.Before[i]), map[string]any{"tx": tx, "ctx": ctx()})
				}
			}
		}
		if *lastAfter != nil && !rec.TimeEq(*lastAfter, tx.Before) {
			res.Violate("C01/chain-broken", fmt.Sprintf(
				"time-before %v of a transition differs from the previous time-after %v",
				tx.Before, *lastAfter), map[string]any{"tx": tx, "ctx": ctx()})
		}
		if !rec.TimeEq(tx.After, tx.MachTime) {
			res.Violate("C01/timeafter-vs-machine", fmt.Sprintf(
				"transition time-after %v differs from Machine.Time %v sampled in TransitionEnd",
				tx.After, tx.MachTime), map[string]any{"tx": tx, "ctx": ctx()})
		}
		// activity reported in TransitionEnd equals parity of time-after
		if !rec.SameSet(tx.ActiveEnd, rec.ActiveFromTime(names, tx.After)) {
			res.Violate("C01/parity-vs-activity", fmt.Sprintf(
				"active states %v at the end of the transition but odd ticks %v", tx.ActiveEnd,
				rec.ActiveFromTime(names, tx.After)), map[string]any{"tx": tx, "ctx": ctx()})
		}
		t := tx.After
		*lastAfter = t
	}
	// final: machine time equals last after
	if *lastAfter != nil && !rec.TimeEq(*lastAfter, m.Time(nil)) {
		res.Violate("C01/final-time", fmt.Sprintf("Machine.Time %v differs from the last time-after %v",
			m.Time(nil), *lastAfter), ctx())
	}
}

func enumOps(names []string) []gen.Op {
	var ops []gen.Op
	for _, k := range []string{"add", "remove", "set", "toggle", "canadd", "canremove"} {
		for _, s := range gen.Subsets(names) {
			ops = append(ops, gen.Op{Kind: k, States: s})
		}
	}
	ops = append(ops, gen.Op{Kind: "adderr"})
	return ops
}

func runHistory(res *core.CaseResult, spec gen.SchemaSpec, hist []gen.Op) {
	mc, _ := seq.New(spec, seq.MachOpts{})
	var last am.Time
	changed := false
	for i, op := range hist {
		from := mc.Tr.Len()
		t0 := mc.M.Time(nil)
		rec.Apply(mc.M, op)
		judgeStep(res, mc, from, &last, func() any {
			return map[string]any{"schema": spec.String(), "history": fmt.Sprint(hist[:i+1])}
		})
		if !rec.TimeEq(t0, mc.M.Time(nil)) {
			changed = true
		}
	}
	if changed {
		res.Key(spec.String(), fmt.Sprint(hist))
	}
	res.Count("histories", 1)
}

func (eng) Run(c core.CaseDesc, tier string) *core.CaseResult {
	res := &core.CaseResult{Case: c}
	switch c.Kind {
	case "enum":
		var p enumP
		_ = json.Unmarshal(c.P, &p)
		for idx := p.Lo; idx < p.Hi; idx++ {
			spec, ok := gen.EnumSchema(p.N, true, idx)
			if !ok {
				continue
			}
			ops := enumOps(spec.Names)
			// all histories up to Len
			var walk func(prefix []gen.Op)
			walk = func(prefix []gen.Op) {
				if len(prefix) == p.Len {
					runHistory(res, spec, prefix)
					return
				}
				for _, op := range ops {
					walk(append(prefix[:len(prefix):len(prefix)], op))
				}
			}
			walk(nil)
			res.Count("schemas", 1)
			if res.Sample == nil && spec.HasRelations() {
				res.Sample = map[string]any{"schema": spec.String(), "histories": fmt.Sprintf("all %d^%d", len(ops), p.Len)}
			}
		}
	case "hist":
		r := gen.NewRand(c.Seed, 1)
		spec := gen.RandSchema(r, gen.SchemaOpts{MinStates: 3, MaxStates: 6,
			PRequire: r.Float64() * 0.25, PAdd: r.Float64() * 0.3, PRemove: r.Float64() * 0.3,
			PAfter: r.Float64() * 0.2, PAuto: r.Float64() * 0.3, PMulti: r.Float64() * 0.4})
		mc, _ := seq.New(spec, seq.MachOpts{})
		nb := r.IntN(4) // 0..3 bindings
		pv := r.Float64() * 0.2
		var dmx sync.Mutex
		names := rec.AllHandlerNames(append(gen.Sorted(spec.Names), "Exception"))
		for b := 0; b < nb; b++ {
			var sub []string
			for _, n := range names {
				if r.IntN(3) > 0 {
					sub = append(sub, n)
				}
			}
			_, _ = rec.BindMaps(mc.M, mc.HLog, b, sub, func(hc *rec.HCall, e *am.Event) bool {
				dmx.Lock()
				defer dmx.Unlock()
				return r.Float64() >= pv
			})
		}
		hist := gen.RandHistory(r, spec.Names, gen.OpKindsAll, 30)
		var last am.Time
		for i, op := range hist {
			from := mc.Tr.Len()
			rec.Apply(mc.M, op)
			judgeStep(res, mc, from, &last, func() any {
				return map[string]any{"schema": spec.String(), "bindings": nb, "history": fmt.Sprint(hist[:i+1])}
			})
			res.Key(c.Seed, i)
		}
		res.Count("handler_calls", int64(mc.HLog.Len()))
		if mc.HLog.Overlaps.Load() > 0 {
			res.Violate("C01/handler-overlap", "two handlers overlapped", nil)
		}
		if c.ID == "hist/00000" {
			res.Sample = map[string]any{"schema": spec.String(), "bindings": nb, "history": fmt.Sprint(hist[:8]) + "..."}
		}
		if nb > 0 {
			mc.M.Dispose()
		}
	case "readers":
		runReaders(res, c)
	case "import":
		runImport(res, c)
	}
	return res
}

// runImport: a snapshot exported by a machine whose state order was set with
// VerifyStates is imported into a fresh machine of the same schema (which may
// already have handed out its name list and indexes); every view of the
// importer has to agree with every other and with the exporter's clock by
// name, straight after the import and across further transitions.
func runImport(res *core.CaseResult, c core.CaseDesc) {
	r := gen.NewRand(c.Seed, 5)
	spec := gen.RandSchema(r, gen.SchemaOpts{MinStates: 3, MaxStates: 6,
		PRequire: r.Float64() * 0.25, PAdd: r.Float64() * 0.3, PRemove: r.Float64() * 0.3,
		PAfter: r.Float64() * 0.2, PAuto: r.Float64() * 0.3, PMulti: r.Float64() * 0.4})
	src, _ := seq.New(spec, seq.MachOpts{})
	defer src.M.Dispose()
	order := append(am.S{}, src.M.StateNames()...)
	reorder := r.IntN(4) > 0
	if reorder {
		r.Shuffle(len(order), func(i, j int) { order[i], order[j] = order[j], order[i] })
	}
	// Export wants a verified order
	if err := src.M.VerifyStates(order); err != nil {
		res.Inconclusive = "VerifyStates: " + err.Error()
		return
	}
	hist := gen.RandHistory(r, spec.Names, gen.OpKindsAll, 12)
	var lastSrc am.Time
	for _, op := range hist {
		from := src.Tr.Len()
		rec.Apply(src.M, op)
		judgeStep(res, src, from, &lastSrc, func() any {
			return map[string]any{"schema": spec.String(), "order": order, "phase": "exporter"}
		})
	}
	ser, _, err := src.M.Export()
	if err != nil {
		res.Inconclusive = "Export: " + err.Error()
		return
	}
	want := src.M.Clock(nil)
	dst, _ := seq.New(spec, seq.MachOpts{})
	defer dst.M.Dispose()
	touched := r.IntN(3) > 0
	if touched {
		for _, n := range dst.M.StateNames() {
			_ = dst.M.Index1(n)
		}
	}
	ctx := func() any {
		return map[string]any{"schema": spec.String(), "exporter_order": order, "reordered": reorder,
			"names_read_before_import": touched, "history": fmt.Sprint(hist)}
	}
	if err := dst.M.Import(ser); err != nil {
		res.Violate("C01/import/refused", fmt.Sprintf("Import of a snapshot of the same schema failed: %v", err), ctx())
		return
	}
	res.Count("imports", 1)
	res.Evals++
	names := dst.M.StateNames()
	if d := seq.ViewsDisagree(names, seq.Views(dst.M)); d != "" {
		res.Violate("C01/import/views-disagree", "after Import: "+d, ctx())
		return
	}
	got := dst.M.Clock(nil)
	for n, v := range want {
		if got[n] != v {
			res.Violate("C01/import/clock-differs", fmt.Sprintf("state %s has tick %d in the exporter and %d after Import", n, v, got[n]), ctx())
			return
		}
	}
	tm := dst.M.Time(nil)
	for _, n := range names {
		i := dst.M.Index1(n)
		if i < 0 || i >= len(tm) || tm[i] != want[n] {
			res.Violate("C01/import/index-differs", fmt.Sprintf("Time(nil)[Index1(%s)=%d] is not the imported tick %d (time %v)", n, i, want[n], tm), ctx())
			return
		}
	}
	// the importer keeps counting
	more := gen.RandHistory(r, spec.Names, gen.OpKindsAll, 12)
	var last am.Time
	for i, op := range more {
		from := dst.Tr.Len()
		rec.Apply(dst.M, op)
		judgeStep(res, dst, from, &last, func() any {
			return map[string]any{"import": ctx(), "after_import": fmt.Sprint(more[:i+1])}
		})
		res.Key(c.Seed, "import", i)
	}
}

func runReaders(res *core.CaseResult, c core.CaseDesc) { seq.ReaderStress(res, c, "C01") }

func main() { core.Main(eng{}) }
