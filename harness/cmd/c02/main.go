// C02: relations keep the active set consistent after every transition.
package main

import (
	"context"
	"slices"
	"encoding/json"
	"fmt"
	"strings"

	am "github.com/pancsta/asyncmachine-go/pkg/machine"

	"verif/core"
	"verif/gen"
	"verif/oracle"
	"verif/rec"
)

type eng struct{}

func (eng) Property() string { return "C02" }
func (eng) Level() string    { return "exploration" }
func (eng) Rule() string {
	return "cases: (a) every schema over n<=2 states (Require/Add/Remove per ordered pair, Multi flag) " +
		"explored breadth-first over ordered active lists from the empty machine with every " +
		"Add/Remove/Set over every non-empty subset; (b) n=3 schemas (a PRNG sample in quick, the whole " +
		"2^21 space in thorough); (c) PRNG-sampled schemas of 4..8 states incl. cycles, Auto, After and " +
		"deep Add chains, driven by random mutation histories; (d) directed witnesses; (e) schemas with Auto states and handlers that veto inside auto " +
		"transitions, judged by R1 and R2 only. An evaluation is " +
		"one accepted transition judged by clauses R1-R5; a distinct non-trivial item is a distinct " +
		"(schema, ordered-before, mutation) triple whose schema has at least one relation."
}
func (eng) Assumptions() []string {
	return []string{
		"handler-less machines (handler faults are excluded by the statement)",
		"the parsed schema (Machine.Schema()) is the reference for relations",
		"excuses are permissive: any candidate of Add*(called ∪ before) may block or remove",
	}
}

type batchP struct {
	N  int    `json:"n"`
	Lo uint64 `json:"lo"`
	Hi uint64 `json:"hi"`
	// Sample > 0: pick that many PRNG indices instead of the range
	Sample int `json:"sample,omitempty"`
}

type directedP struct {
	Schema gen.SchemaSpec `json:"schema"`
	Path   []gen.Op       `json:"path"`
}

func mk(id, kind string, seed uint64, p any) core.CaseDesc {
	var raw json.RawMessage
	if p != nil {
		raw, _ = json.Marshal(p)
	}
	return core.CaseDesc{ID: id, Kind: kind, Seed: seed, P: raw}
}

func (eng) Cases(seed uint64, tier string) []core.CaseDesc {
	var cs []core.CaseDesc
	// exhaustive n=1,2
	cs = append(cs, mk("enum/n1", "enum", seed, batchP{N: 1, Lo: 0, Hi: 1 << gen.EnumBits(1, false)}))
	total2 := uint64(1) << gen.EnumBits(2, true)
	step := total2 / 8
	for i := uint64(0); i < 8; i++ {
		cs = append(cs, mk(fmt.Sprintf("enum/n2a/%d", i), "enumauto", seed,
			batchP{N: 2, Lo: i * step, Hi: (i + 1) * step}))
	}
	// n=3
	total3 := uint64(1) << gen.EnumBits(3, false)
	if tier == "thorough" {
		const batch = 8192
		for lo := uint64(0); lo < total3; lo += batch {
			cs = append(cs, mk(fmt.Sprintf("enum/n3/%06d", lo/batch), "enum", seed,
				batchP{N: 3, Lo: lo, Hi: lo + batch}))
		}
	} else {
		for i := 0; i < 32; i++ {
			cs = append(cs, mk(fmt.Sprintf("enum/n3s/%02d", i), "enum", seed+uint64(i)*7919,
				batchP{N: 3, Sample: 150}))
		}
	}
	// sampled
	nr := 500
	if tier == "thorough" {
		nr = 120000
	}
	nv := 300
	if tier == "thorough" {
		nv = 60000
	}
	for i := 0; i < nv; i++ {
		cs = append(cs, mk(fmt.Sprintf("veto/%05d", i), "veto", seed*4000037+uint64(i), nil))
	}
	for i := 0; i < nr; i++ {
		cs = append(cs, mk(fmt.Sprintf("rand/%05d", i), "rand", seed*1000003+uint64(i), nil))
	}
	// directed
	for i, d := range directed() {
		cs = append(cs, mk(fmt.Sprintf("directed/%02d", i), "directed", seed, d))
	}
	return cs
}

func directed() []directedP {
	chain := gen.SchemaSpec{Names: []string{"A", "B", "C", "D", "E"}, States: map[string]gen.StateSpec{
		"A": {Add: []string{"B"}}, "B": {Add: []string{"C"}}, "C": {Add: []string{"D"}},
		"D": {Add: []string{"E"}}, "E": {},
	}}
	second := gen.SchemaSpec{Names: []string{"A", "B", "C", "D"}, States: map[string]gen.StateSpec{
		"A": {Add: []string{"C", "D"}}, "B": {}, "C": {Add: []string{"A"}}, "D": {Remove: []string{"C"}},
	}}
	return []directedP{
		{chain, []gen.Op{{Kind: "add", States: []string{"A"}}}},
		{second, []gen.Op{{Kind: "add", States: []string{"B", "D"}}, {Kind: "set", States: []string{"C"}}}},
	}
}

// second-pass observation: the resolver calls parseAdd twice per resolution;
// the states that enter through the second call are recorded per transition.
var secondPass = map[string]map[string]bool{}
var parseAddCalls = map[string]int{}

func init() {
	am.VerifHookSetData("rel.parseAdd", func(args ...any) {
		t := args[0].(*am.Transition)
		in := args[1].(am.S)
		out := args[2].(am.S)
		parseAddCalls[t.Id]++
		if parseAddCalls[t.Id]%2 == 0 {
			mm := secondPass[t.Id]
			if mm == nil {
				mm = map[string]bool{}
				secondPass[t.Id] = mm
			}
			for _, s := range out {
				if !slices.Contains(in, s) {
					mm[s] = true
				}
			}
		}
	})
}

// newMach creates a handler-less machine with a recording tracer.
func newMach(spec gen.SchemaSpec) (*am.Machine, *rec.Tracer) {
	tr := rec.NewTracer("rec")
	m := am.New(context.Background(), spec.Schema(), &am.Opts{
		Id: "c02", Tracers: []am.Tracer{tr}, DontLogId: true,
	})
	return m, tr
}

type witness struct {
	Schema string         `json:"schema"`
	Spec   gen.SchemaSpec `json:"spec"`
	Path   []gen.Op       `json:"path"`
	Tx     *rec.TxRec     `json:"tx"`
	Clause string         `json:"clause"`
}

// judge checks all new transitions recorded since from.
// onlyInvariants restricts the judgement to R1 and R2 (the veto cases; one
// case runs per process at a time).
var onlyInvariants bool

func judge(res *core.CaseResult, m *am.Machine, spec gen.SchemaSpec, tr *rec.Tracer,
	from int, path []gen.Op,
) {
	schema := m.Schema()
	txs := tr.Snapshot()
	nontriv := spec.HasRelations()
	for _, tx := range txs[from:] {
		if tx.IsCheck || !tx.Accepted {
			continue
		}
		res.Evals++
		if nontriv {
			res.Key(spec.String(), strings.Join(tx.StatesBef, ","), tx.Type,
				strings.Join(tx.Called, ","))
		}
		vs := oracle.CheckRelations(schema, tx.Type, tx.Called, tx.StatesBef,
			tx.ActiveEnd, tx.IsAuto)
		for _, v := range vs {
			if onlyInvariants && v.Clause != "R1" && v.Clause != "R2" {
				// with vetoing handlers the Add / justification clauses have
				// excuses this oracle does not model; Require closure and
				// exclusion hold for every active set
				continue
			}
			sig := "C02/" + v.Clause
			sp := secondPass[tx.TxId]
			switch v.Clause {
			case "R3":
				if sp[v.State] {
					sig += "/activated-through-second-parseAdd-pass"
				} else {
					sig += "/activated-in-first-pass"
				}
			case "R2":
				// v.State Removes v.Other. The resolver filters second-pass
				// additions against the Remove lists of first-pass survivors,
				// so only a remover that itself entered through the second
				// pass is the known defect.
				if sp[v.State] {
					sig += "/remover-entered-through-second-parseAdd-pass"
				} else if sp[v.Other] {
					sig += "/victim-from-second-pass-remover-from-first"
				} else {
					sig += "/both-first-pass"
				}
			}
			res.Violate(sig, v.What+fmt.Sprintf(" [schema %s | before %v | %s %v | after %v]",
				spec.String(), tx.StatesBef, tx.Type, tx.Called, tx.ActiveEnd),
				witness{spec.String(), spec, append([]gen.Op(nil), path...), tx, v.Clause})
		}
		res.Count("accepted_transitions", 1)
		if tx.IsAuto {
			res.Count("auto_transitions", 1)
		}
	}
}

func replay(spec gen.SchemaSpec, path []gen.Op) (*am.Machine, *rec.Tracer) {
	m, tr := newMach(spec)
	for _, op := range path {
		rec.Apply(m, op)
	}
	return m, tr
}

// bfs explores ordered active lists exhaustively with the real machine.
func bfs(res *core.CaseResult, spec gen.SchemaSpec) {
	type node struct {
		path []gen.Op
	}
	subsets := gen.Subsets(spec.Names)
	var muts []gen.Op
	for _, k := range gen.OpKindsMut {
		for _, s := range subsets {
			muts = append(muts, gen.Op{Kind: k, States: s})
		}
	}
	seen := map[string]bool{"": true}
	queue := []node{{}}
	for len(queue) > 0 {
		nd := queue[0]
		queue = queue[1:]
		for _, mu := range muts {
			m, tr := replay(spec, nd.path)
			from := tr.Len()
			rec.Apply(m, mu)
			p := append(append([]gen.Op(nil), nd.path...), mu)
			judge(res, m, spec, tr, from, p)
			key := strings.Join(m.ActiveStates(nil), ",")
			if !seen[key] {
				seen[key] = true
				queue = append(queue, node{p})
			}
			res.Count("bfs_transitions", 1)
		}
	}
	res.Count("bfs_nodes", int64(len(seen)))
	res.Count("schemas_explored", 1)
}

func (eng) Run(c core.CaseDesc, tier string) *core.CaseResult {
	res := &core.CaseResult{Case: c}
	switch c.Kind {
	case "enum", "enumauto":
		var p batchP
		_ = json.Unmarshal(c.P, &p)
		auto := c.Kind == "enumauto"
		run := func(idx uint64) {
			spec, ok := gen.EnumSchema(p.N, auto, idx)
			if !ok {
				res.Count("schemas_skipped_not_parse_valid", 1)
				return
			}
			bfs(res, spec)
			if res.Sample == nil && spec.HasRelations() {
				res.Sample = map[string]any{"schema": spec.String(), "explored": "bfs over ordered active lists x all Add/Remove/Set subsets"}
			}
		}
		if p.Sample > 0 {
			r := gen.NewRand(c.Seed, 3)
			total := uint64(1) << gen.EnumBits(p.N, auto)
			for i := 0; i < p.Sample; i++ {
				run(r.Uint64N(total))
			}
		} else {
			for idx := p.Lo; idx < p.Hi; idx++ {
				run(idx)
			}
		}
	case "rand":
		r := gen.NewRand(c.Seed, 1)
		o := gen.SchemaOpts{MinStates: 4, MaxStates: 8,
			PRequire: r.Float64() * 0.25, PAdd: r.Float64() * 0.35,
			PRemove: r.Float64() * 0.3, PAfter: r.Float64() * 0.2,
			PAuto: r.Float64() * 0.3, PMulti: r.Float64() * 0.3}
		if r.IntN(3) == 0 {
			o.AddChain = 3 + r.IntN(4)
		}
		spec := gen.RandSchema(r, o)
		m, tr := newMach(spec)
		hist := gen.RandHistory(r, spec.Names, []string{"add", "remove", "set", "add", "toggle"}, 40)
		for i, op := range hist {
			from := tr.Len()
			rec.Apply(m, op)
			judge(res, m, spec, tr, from, hist[:i+1])
		}
		if c.ID == "rand/00000" {
			res.Sample = map[string]any{"schema": spec.String(), "history": fmt.Sprint(hist[:6]) + "..."}
		}
	case "veto":
		// handlers that veto (a static PRNG table over the negotiation handler
		// names), Auto states: partially accepted auto transitions re-resolve
		// their target; whatever is applied has to be closed under Require and
		// free of Remove pairs
		r := gen.NewRand(c.Seed, 3)
		spec := gen.RandSchema(r, gen.SchemaOpts{MinStates: 3, MaxStates: 6,
			PRequire: r.Float64() * 0.35, PAdd: r.Float64() * 0.2, PRemove: r.Float64() * 0.25,
			PAuto: 0.2 + r.Float64()*0.4, PMulti: r.Float64() * 0.2, AcyclicRequire: true})
		m, tr := newMach(spec)
		defer m.Dispose()
		names := rec.AllHandlerNames(gen.Sorted(spec.Names))
		vt := map[string]bool{}
		for _, n := range names {
			if rec.IsNegotiation(n) && r.IntN(5) == 0 {
				vt[n] = true
			}
		}
		hl := &rec.HLog{}
		_, _ = rec.BindMaps(m, hl, 0, names, func(hc *rec.HCall, e *am.Event) bool {
			// (only in auto transitions: that is where a veto rejects one state
			// and the rest goes on)
			if tx := e.Transition(); tx != nil && tx.IsAuto() {
				return !vt[hc.Name]
			}
			return true
		})
		hist := gen.RandHistory(r, spec.Names, []string{"add", "remove", "set", "add", "toggle"}, 25)
		onlyInvariants = true
		for i, op := range hist {
			from := tr.Len()
			rec.Apply(m, op)
			judge(res, m, spec, tr, from, hist[:i+1])
		}
		onlyInvariants = false
	case "directed":
		var p directedP
		_ = json.Unmarshal(c.P, &p)
		m, tr := newMach(p.Schema)
		for i, op := range p.Path {
			from := tr.Len()
			rec.Apply(m, op)
			judge(res, m, p.Schema, tr, from, p.Path[:i+1])
		}
	}
	return res
}

func main() { core.Main(eng{}) }
