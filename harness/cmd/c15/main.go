// C15: supervision keeps the pool within bounds and never calls a short pool
// ready.
package main

import (
	"context"
	"encoding/json"
	"errors"
	"fmt"
	"math/rand/v2"
	"slices"
	"sort"
	"strings"
	"sync"
	"sync/atomic"
	"time"

	am "github.com/pancsta/asyncmachine-go/pkg/machine"
	"github.com/pancsta/asyncmachine-go/pkg/node"
	ssnode "github.com/pancsta/asyncmachine-go/pkg/node/states"

	"verif/core"
	"verif/gen"
)

type eng struct{}

func (eng) Property() string { return "C15" }
func (eng) Level() string    { return "exploration" }
func (eng) Rule() string {
	return "cases: a node supervisor with PRNG pool settings (Min/Max/Warm 0..6, WorkerErrKill 1..3, timeouts shrunk to " +
		"milliseconds) whose TestFork/TestKill seams are driven by the harness. mode A (gated): the fork seam parks on a " +
		"gate and returns nil or an error when the harness says so, no worker exists (fork storms against Max, " +
		"normalisation rounds and heartbeats while forks are parked, injected ErrWorker with a tracked address, kills); " +
		"mode B (workers): the seam starts a real in-memory node.Worker over loopback RPC so that workers connect and become " +
		"Ready, the harness then stops workers, raises exceptions on them and kills them; script late-report: the first fork is parked, " +
		"killed and replaced before it reported, then reports. Errors are counted as they are reported to the supervisor. A tracer on the supervisor " +
		"machine samples the worker map at every TransitionEnd, data points in PoolReadyEnter/Exit report the count the " +
		"handler saw. An evaluation is one transition end or one PoolReady negotiation judged; a distinct item is a " +
		"distinct (mode, Min, Max, Warm, tracked, ready, PoolReady active) tuple."
}
func (eng) Assumptions() []string {
	return []string{
		"real processes are never forked (WorkerBin is a dummy, the seams are always set)",
		"the ready count in force at a PoolReady negotiation is the one the handler computed (reported through a verif data point); the oracle recomputes min(Min, Max) itself",
		"a kill is 'requested' when a KillingWorker mutation carrying the worker's address was queued or executed",
	}
}

type scenP struct {
	Mode string `json:"mode"`
	Min  int    `json:"min"`
	Max  int    `json:"max"`
	Warm int    `json:"warm"`
	Kill int    `json:"kill"`
	N    int    `json:"n"`
	// MinOverMax sets Min above Max by field assignment (SetPool would clamp)
	MinOverMax bool `json:"min_over_max,omitempty"`
	// Script "withdraw": only withdrawal attempts once the pool is full
	Script string `json:"script,omitempty"`
}

func mk(id, kind string, seed uint64, p any) core.CaseDesc {
	raw, _ := json.Marshal(p)
	return core.CaseDesc{ID: id, Kind: kind, Seed: seed, P: raw}
}

func (eng) Cases(seed uint64, tier string) []core.CaseDesc {
	var cs []core.CaseDesc
	nA, nB, nC := 22, 12, 10
	if tier == "thorough" {
		nA, nB, nC = 800, 400, 300
	}
	for i := 0; i < nC; i++ {
		r := gen.NewRand(seed*104729+uint64(i), 16)
		// pools with room below Max, so that over-forking can show
		mx := 2 + r.IntN(4)
		p := scenP{Mode: "prompt", Max: mx, Min: 1 + r.IntN(mx), Warm: r.IntN(2), Kill: 2 + r.IntN(2), N: 4 + r.IntN(5)}
		cs = append(cs, mk(fmt.Sprintf("prompt/%04d", i), "scen", seed*1000003+uint64(i)+500000, p))
	}
	// Min above Max (set by field assignment): min(Min, Max) = Max is what counts
	nD := 6
	if tier == "thorough" {
		nD = 150
	}
	for i := 0; i < nD; i++ {
		r := gen.NewRand(seed*104729+uint64(i), 17)
		mx := 1 + r.IntN(2)
		p := scenP{Mode: "workers", Max: mx, Min: mx + 1 + r.IntN(3), Warm: 0, Kill: 3, N: 5 + r.IntN(5), MinOverMax: true, Script: "withdraw"}
		cs = append(cs, mk(fmt.Sprintf("min-over-max/%04d", i), "scen", seed*1000003+uint64(i)+700000, p))
	}
	// a forked worker that is killed and replaced before it reported, and reports late
	nL := 2
	if tier == "thorough" {
		nL = 20
	}
	for i := 0; i < nL; i++ {
		p := scenP{Mode: "workers", Max: 1, Min: 1, Warm: 0, Kill: 3, N: 0, Script: "latereport"}
		cs = append(cs, mk(fmt.Sprintf("late-report/%04d", i), "scen", seed*1000003+uint64(i)+900000, p))
	}
	for i := 0; i < nA+nB; i++ {
		r := gen.NewRand(seed*104729+uint64(i), 15)
		p := scenP{Mode: "gated", Min: r.IntN(7), Max: r.IntN(7), Warm: r.IntN(7), Kill: 1 + r.IntN(3), N: 6 + r.IntN(14)}
		if i >= nA {
			p.Mode = "workers"
			p.Max = 1 + r.IntN(4)
			p.Min = r.IntN(5)
			p.Warm = r.IntN(3)
			p.N = 4 + r.IntN(8)
		}
		if r.IntN(4) == 0 {
			p.MinOverMax = true
		}
		cs = append(cs, mk(fmt.Sprintf("%s/%04d", p.Mode, i), "scen", seed*1000003+uint64(i), p))
	}
	return cs
}

func (eng) CaseTimeout(tier string) time.Duration { return 150 * time.Second }
func (eng) Children(tier string) int              { return 8 }

func main() { core.Main(eng{}) }

var ssS = ssnode.SupervisorStates
var sgS = ssnode.SupervisorGroups
var ssW = ssnode.WorkerStates
var sgW = ssnode.WorkerGroups

// ---------- monitor

type negotiation struct {
	kind  string // enter / exit
	ready int
	min   int
	max   int
	ok    bool
}

type monitor struct {
	*am.TracerNoOp
	sup   *node.Supervisor
	names am.S
	mx    sync.Mutex
	res   *core.CaseResult
	mode  string
	// samples
	lastTotal, lastReady int
	maxTotal, maxReady    int
	// forks
	forkAccepted, forkAtMax int
	// kills
	needKill      map[string]int
	killRequested map[string]bool
	// errors reported per worker address (ErrWorker mutations queued)
	reported map[string]int
	// PoolReady
	negs       []negotiation
	poolActive bool
	txs        int
	keys       map[string]bool
	errK       int
	stop       atomic.Bool
	// the late report of a removed worker has been let through
	lateReport bool
}

func (m *monitor) violate(sig, what string) {
	m.res.Violate(sig, what, nil)
}

func activeOf(names am.S, t am.Time) []string {
	var r []string
	for i, v := range t {
		if am.IsActiveTick(v) && i < len(names) {
			r = append(r, names[i])
		}
	}
	return r
}

func groupCount(active []string, group am.S) []string {
	var r []string
	for _, g := range group {
		if slices.Contains(active, g) {
			r = append(r, g)
		}
	}
	return r
}

func argsAddr(args am.A) string {
	a := am.ParseArgs[node.A](args)
	if a == nil {
		return ""
	}
	return a.LocalAddr
}

func (m *monitor) MutationQueued(_ am.Api, mut *am.Mutation) {
	if m.stop.Load() {
		return
	}
	called := am.IndexToStates(m.names, mut.Called)
	// errors attributed to a worker, as they are reported to the supervisor
	if slices.Contains(called, ssS.ErrWorker) && mut.Type == am.MutationAdd {
		if addr := argsAddr(mut.Args); addr != "" {
			m.mx.Lock()
			m.reported[addr]++
			m.mx.Unlock()
		}
	}
	if slices.Contains(called, ssS.KillingWorker) && mut.Type == am.MutationAdd {
		if addr := argsAddr(mut.Args); addr != "" {
			m.mx.Lock()
			m.killRequested[addr] = true
			m.mx.Unlock()
		}
	}
}

func (m *monitor) TransitionEnd(tx *am.Transition) {
	if m.stop.Load() || tx.Mutation == nil || tx.Mutation.IsCheck {
		return
	}
	m.mx.Lock()
	defer m.mx.Unlock()
	m.txs++
	m.res.Evals++
	s := m.sup
	total, _, ready := s.VerifWorkers()
	called := tx.CalledStates()
	accepted := tx.IsAccepted.Load()
	active := activeOf(m.names, tx.TimeAfter)
	ctxs := fmt.Sprintf("Min=%d Max=%d Warm=%d; tx %s %v accepted=%v; tracked=%d ready=%d", s.Min, s.Max, s.Warm, tx.Mutation.Type, called, accepted, total, ready)

	// kills requested (executed without having been queued)
	if slices.Contains(called, ssS.KillingWorker) && tx.Mutation.Type == am.MutationAdd {
		if addr := argsAddr(tx.Mutation.Args); addr != "" {
			m.killRequested[addr] = true
		}
	}
	// a worker over its error budget has a kill requested by the very handler
	// that recorded the error: the KillingWorker mutation is queued before the
	// ErrWorker transition ends
	if accepted && tx.Mutation.Type == am.MutationAdd && slices.Contains(called, ssS.ErrWorker) {
		if addr := argsAddr(tx.Mutation.Args); addr != "" {
			if n := s.VerifWorkerErrs(addr); n > s.WorkerErrKill && !m.killRequested[addr] {
				m.violate("C15/no-kill-after-errors", fmt.Sprintf("worker %s has %d recorded errors (WorkerErrKill=%d) at the end of the ErrWorker transition that recorded the last one, and no KillingWorker mutation carrying its address was queued (%s)",
					addr, n, s.WorkerErrKill, ctxs))
			}
		}
	}
	// never forks while at Max: the gate of an accepted ForkingWorker saw the
	// map as it is now (the map changes only in SetWorker / WorkerForked /
	// WorkerKilled transitions)
	if accepted && tx.Mutation.Type == am.MutationAdd && slices.Contains(called, ssS.ForkingWorker) {
		m.forkAccepted++
		if total >= s.Max {
			m.forkAtMax++
			m.violate("C15/fork-at-max", "a ForkingWorker transition was accepted with "+ctxs)
		}
	}
	// never more than Max tracked
	if total > s.Max && total > m.maxTotal {
		cls := "fork-at-max"
		if m.lateReport {
			// nothing was in flight but the report of a worker that had been
			// killed and removed
			cls = "late-report-of-removed-worker"
		} else if m.forkAtMax == 0 {
			// every fork passed its gate below Max: the excess was in flight
			cls = "forks-in-flight"
			if m.mode == "prompt" {
				// no fork storms, no parked forks: only the supervisor's own
				// normalisation asked for them, one round at a time
				cls = "normalisation-overforks"
			}
		}
		m.violate("C15/max-exceeded/"+cls, fmt.Sprintf("%d workers tracked with Max=%d (%d forks accepted, %d of them at Max; %s)", total, s.Max, m.forkAccepted, m.forkAtMax, ctxs))
	}
	if total > m.maxTotal {
		m.maxTotal = total
	}
	// groups
	if g := groupCount(active, sgS.PoolStatus); len(g) > 1 {
		m.violate("C15/group/PoolStatus", fmt.Sprintf("%v active together (%s)", g, ctxs))
	}
	if g := groupCount(active, sgS.PoolNormalized); len(g) > 1 {
		m.violate("C15/group/PoolNormalized", fmt.Sprintf("%v active together (%s)", g, ctxs))
	}
	// PoolReady against the sampled count, when the count did not move around
	// this transition (the exact judgement is made at the data points)
	nowActive := slices.Contains(active, ssS.PoolReady)
	mn := min(s.Min, s.Max)
	if nowActive && !m.poolActive && ready == m.lastReady && ready < mn {
		m.violate("C15/poolready/activated-short/sampled", fmt.Sprintf("PoolReady became active with %d ready workers before and after, min(Min,Max)=%d (%s)", ready, mn, ctxs))
	}
	m.poolActive = nowActive
	m.lastTotal, m.lastReady = total, ready
	if ready > m.maxReady {
		m.maxReady = ready
	}
	// error accounting
	for _, addr := range s.VerifWorkerAddrs() {
		if n := s.VerifWorkerErrs(addr); n > s.WorkerErrKill {
			if _, ok := m.needKill[addr]; !ok {
				m.needKill[addr] = n
			}
		}
	}
	k := fmt.Sprintf("%s/%d/%d/%d/%d/%d/%v", m.mode, s.Min, s.Max, s.Warm, total, ready, nowActive)
	if !m.keys[k] {
		m.keys[k] = true
		m.res.Key(m.mode, s.Min, s.Max, s.Warm, total, ready, nowActive)
	}
}

// onNegotiation is installed at the PoolReady data points.
func (m *monitor) onNegotiation(kind string, args ...any) {
	if m.stop.Load() || len(args) < 3 {
		return
	}
	s, ok := args[0].(*node.Supervisor)
	if !ok || s != m.sup {
		return
	}
	ready, verdict := args[1].(int), args[2].(bool)
	m.mx.Lock()
	defer m.mx.Unlock()
	m.res.Evals++
	mn := min(s.Min, s.Max)
	m.negs = append(m.negs, negotiation{kind, ready, s.Min, s.Max, verdict})
	switch kind {
	case "enter":
		if verdict && ready < mn {
			m.violate("C15/poolready/activated-short", fmt.Sprintf("PoolReadyEnter let PoolReady in with %d ready workers, min(Min=%d, Max=%d)=%d", ready, s.Min, s.Max, mn))
		}
		m.res.Key("enter", verdict, ready >= mn)
	case "exit":
		if verdict && ready >= mn {
			m.violate("C15/poolready/withdrawn-while-enough", fmt.Sprintf("PoolReadyExit let PoolReady go with %d ready workers, min(Min=%d, Max=%d)=%d", ready, s.Min, s.Max, mn))
		}
		m.res.Key("exit", verdict, ready >= mn)
	}
}

// worker-side monitor: WorkStatus has at most one member active
type wmon struct {
	*am.TracerNoOp
	m     *monitor
	names am.S
}

func (w *wmon) TransitionEnd(tx *am.Transition) {
	if w.m.stop.Load() {
		return
	}
	active := activeOf(w.names, tx.TimeAfter)
	if g := groupCount(active, sgW.WorkStatus); len(g) > 1 {
		w.m.mx.Lock()
		w.m.violate("C15/group/WorkStatus", fmt.Sprintf("worker: %v active together after %s %v", g, tx.Mutation.Type, tx.CalledStates()))
		w.m.mx.Unlock()
	}
	w.m.mx.Lock()
	w.m.res.Evals++
	w.m.mx.Unlock()
}

// ---------- world

type world struct {
	ctx    context.Context
	cancel context.CancelFunc
	sup    *node.Supervisor
	mon    *monitor
	r      *rand.Rand
	mode   string
	mx     sync.Mutex
	// gated mode: parked fork calls
	parked []*parkedFork
	// workers mode
	workers map[string]*node.Worker // by any of their addresses
	wlist   []*node.Worker
	closed  atomic.Bool
	// script "latereport": the first fork reports only after lateGate closes
	script    string
	forks     int
	lateAddr  chan string
	lateGate  chan struct{}
	lateBegun atomic.Bool
}

type parkedFork struct {
	addr string
	out  chan error
}

var errFork = errors.New("verif: fork failed")
var errInjected = errors.New("verif: injected worker error")

func (w *world) testFork(addr string) error {
	if w.closed.Load() {
		return errFork
	}
	if w.mode == "prompt" {
		return nil
	}
	if w.mode == "gated" {
		p := &parkedFork{addr: addr, out: make(chan error, 1)}
		w.mx.Lock()
		w.parked = append(w.parked, p)
		w.mx.Unlock()
		select {
		case err := <-p.out:
			return err
		case <-w.ctx.Done():
			return errFork
		}
	}
	if w.script == "latereport" {
		w.mx.Lock()
		w.forks++
		first := w.forks == 1
		w.mx.Unlock()
		if first {
			w.lateAddr <- addr
			go func() {
				select {
				case <-w.lateGate:
				case <-w.ctx.Done():
					return
				}
				w.lateBegun.Store(true)
				_ = w.startWorker(addr)
			}()
			// forked all right: the supervisor tracks it under its bootstrap address
			return nil
		}
	}
	return w.startWorker(addr)
}

// startWorker starts a real in-memory worker that reports to addr.
func (w *world) startWorker(addr string) error {
	wk, err := node.NewWorker(w.ctx, "c15", ssnode.WorkerSchema, ssW.Names(), nil)
	if err != nil {
		return err
	}
	_, _ = wk.Mach.BindTracer(&wmon{TracerNoOp: &am.TracerNoOp{Id: "wmon"}, m: w.mon, names: wk.Mach.StateNames()})
	wk.ConnTimeout = 2 * time.Second
	wk.Start(addr)
	select {
	case <-wk.Mach.When1(ssW.RpcReady, w.ctx):
	case <-time.After(5 * time.Second):
		wk.Stop(true)
		return errFork
	case <-w.ctx.Done():
		return errFork
	}
	w.mx.Lock()
	w.workers[wk.LocalAddr] = wk
	w.workers[wk.BootAddr] = wk
	w.wlist = append(w.wlist, wk)
	w.mx.Unlock()
	return nil
}

func (w *world) testKill(addr string) error {
	w.mx.Lock()
	wk := w.workers[addr]
	w.mx.Unlock()
	if wk != nil {
		wk.Stop(true)
	}
	// what the real path does after the process was killed
	go w.sup.Mach.Add1(ssS.WorkerKilled, am.Pass(&node.A{LocalAddr: addr}))
	return nil
}

func (w *world) release(ok bool) bool {
	w.mx.Lock()
	if len(w.parked) == 0 {
		w.mx.Unlock()
		return false
	}
	i := w.r.IntN(len(w.parked))
	p := w.parked[i]
	w.parked = append(w.parked[:i], w.parked[i+1:]...)
	w.mx.Unlock()
	if ok {
		p.out <- nil
	} else {
		p.out <- errFork
	}
	return true
}

func (w *world) nParked() int {
	w.mx.Lock()
	defer w.mx.Unlock()
	return len(w.parked)
}

// settle waits until the supervisor produced no transition for a moment.
func (w *world) settle(max time.Duration) {
	last, stable := -1, 0
	deadline := time.Now().Add(max)
	for time.Now().Before(deadline) {
		w.mon.mx.Lock()
		n := w.mon.txs
		w.mon.mx.Unlock()
		if n == last && w.sup.Mach.QueueLen() == 0 {
			stable++
			if stable >= 6 {
				return
			}
		} else {
			stable = 0
			last = n
		}
		time.Sleep(10 * time.Millisecond)
	}
}

func (w *world) trackedAddrs() []string {
	// read inside the machine (the map is owned by its handlers)
	var addrs []string
	w.sup.Mach.Eval("c15addrs", func() { addrs = w.sup.VerifWorkerAddrs() }, w.ctx)
	sort.Strings(addrs)
	return addrs
}

func (e eng) Run(c core.CaseDesc, tier string) *core.CaseResult {
	res := &core.CaseResult{Case: c}
	var p scenP
	_ = json.Unmarshal(c.P, &p)
	r := gen.NewRand(c.Seed, 15)
	ctx, cancel := context.WithCancel(context.Background())
	w := &world{ctx: ctx, cancel: cancel, r: r, mode: p.Mode, workers: map[string]*node.Worker{}, script: p.Script,
		lateAddr: make(chan string, 1), lateGate: make(chan struct{})}
	sup, err := node.NewSupervisor(ctx, "c15", []string{"/nonexistent/worker"}, ssnode.WorkerSchema, nil)
	if err != nil {
		res.Inconclusive = "NewSupervisor: " + err.Error()
		cancel()
		return res
	}
	w.sup = sup
	sup.TestFork, sup.TestKill = w.testFork, w.testKill
	sup.ConnTimeout = 1500 * time.Millisecond
	sup.PoolPause = 30 * time.Millisecond
	sup.WorkerCheckInterval = 20 * time.Millisecond
	sup.HealthcheckPause = 20 * time.Millisecond
	sup.OpTimeout = 2 * time.Second
	sup.Heartbeat = time.Hour
	if p.Mode == "prompt" {
		// rounds of one normalisation far enough apart for the forks of the
		// previous round to be registered
		sup.PoolPause = 400 * time.Millisecond
		sup.WorkerCheckInterval = 50 * time.Millisecond
		sup.ConnTimeout = 800 * time.Millisecond
	}
	sup.WorkerErrKill = p.Kill
	sup.Min, sup.Max, sup.Warm = p.Min, p.Max, p.Warm
	if !p.MinOverMax && sup.Min > sup.Max {
		sup.Min = sup.Max
	}
	sup.MaxClientWorkers = max(1, sup.Max)
	sup.Mach.HandlerTimeout = 30 * time.Second
	mon := &monitor{TracerNoOp: &am.TracerNoOp{Id: "c15mon"}, sup: sup, names: sup.Mach.StateNames(), res: res, mode: p.Mode,
		needKill: map[string]int{}, killRequested: map[string]bool{}, keys: map[string]bool{}, reported: map[string]int{}}
	w.mon = mon
	am.VerifHookSetData("sup.poolready.enter", func(a ...any) { mon.onNegotiation("enter", a...) })
	am.VerifHookSetData("sup.poolready.exit", func(a ...any) { mon.onNegotiation("exit", a...) })
	_, _ = sup.Mach.BindTracer(mon)
	defer func() {
		mon.stop.Store(true)
		w.closed.Store(true)
		am.VerifHookSetData("sup.poolready.enter", nil)
		am.VerifHookSetData("sup.poolready.exit", nil)
		for w.release(false) {
		}
		cancel()
		w.mx.Lock()
		ws := slices.Clone(w.wlist)
		w.mx.Unlock()
		for _, wk := range ws {
			wk.Stop(true)
		}
		sup.Stop()
	}()

	if p.Script == "latereport" {
		// the bootstrap of the first fork has to outlive its replacement
		sup.ConnTimeout = 30 * time.Second
	}
	sup.Start("localhost:0")
	w.settle(2 * time.Second)
	var log []string
	if p.Script == "latereport" {
		var addrA string
		select {
		case addrA = <-w.lateAddr:
		case <-time.After(20 * time.Second):
			res.Inconclusive = "the first fork was not requested"
			return res
		}
		w.settle(time.Second)
		// it never reported: killed and removed, a replacement fills the pool
		sup.Mach.Add1(ssS.KillingWorker, am.Pass(&node.A{LocalAddr: addrA}))
		w.settle(time.Second)
		log = append(log, "kill-unreported-first-worker")
		sup.Mach.Add1(ssS.ForkWorker, nil)
		ok := false
		for i := 0; i < 300; i++ {
			if len(w.trackedAddrs()) == 1 && sup.Mach.Is1(ssS.PoolReady) && !slices.Contains(w.trackedAddrs(), addrA) {
				ok = true
				break
			}
			if i%50 == 10 {
				sup.Mach.Add1(ssS.NormalizingPool, nil)
			}
			time.Sleep(20 * time.Millisecond)
		}
		if !ok {
			res.Inconclusive = fmt.Sprintf("the replacement did not fill the pool (tracked %v)", w.trackedAddrs())
			return res
		}
		log = append(log, "replacement-ready")
		mon.mx.Lock()
		mon.lateReport = true
		mon.mx.Unlock()
		close(w.lateGate)
		log = append(log, "first-worker-reports-late")
		w.settle(3 * time.Second)
		res.Count("late_reports_of_removed_workers", 1)
	}
	for i := 0; i < p.N; i++ {
		op := w.step(p)
		log = append(log, op)
		if p.Mode == "prompt" {
			w.settle(2500 * time.Millisecond)
		} else {
			w.settle(600 * time.Millisecond)
		}
		mon.mx.Lock()
		nv := len(res.Violations)
		mon.mx.Unlock()
		if nv > 0 {
			break
		}
	}
	// let everything parked through, then judge the kill requests
	for w.release(w.r.IntN(2) == 0) {
		w.settle(300 * time.Millisecond)
	}
	w.settle(2 * time.Second)
	mon.stop.Store(true)
	mon.mx.Lock()
	defer mon.mx.Unlock()
	for addr, n := range mon.needKill {
		res.Evals++
		if !mon.killRequested[addr] {
			mon.violate("C15/no-kill-after-errors", fmt.Sprintf("worker %s accumulated %d errors (WorkerErrKill=%d) and no KillingWorker mutation carried its address (ops: %s)", addr, n, sup.WorkerErrKill, strings.Join(log, " ")))
		}
	}
	// the same on what was reported: a worker still tracked at the end, with
	// more reported errors than WorkerErrKill (all within WorkerErrTtl), and no
	// kill ever requested
	stillTracked := sup.VerifWorkerAddrs()
	for addr, n := range mon.reported {
		if n <= sup.WorkerErrKill || mon.killRequested[addr] || !slices.Contains(stillTracked, addr) {
			continue
		}
		if _, judged := mon.needKill[addr]; judged {
			continue
		}
		res.Evals++
		mon.violate("C15/no-kill-after-errors/reported-errors-not-recorded", fmt.Sprintf(
			"%d errors were reported for worker %s (WorkerErrKill=%d), the supervisor recorded %d of them and never requested a kill (ErrWorker active at the end: %v; ops: %s)",
			n, addr, sup.WorkerErrKill, sup.VerifWorkerErrs(addr), sup.Mach.Is1(ssS.ErrWorker), strings.Join(log, " ")))
	}
	for i := range res.Violations {
		res.Violations[i].What += " [ops: " + strings.Join(log, " ") + "]"
	}
	res.Count("supervisor_transitions", int64(mon.txs))
	res.Count("poolready_negotiations", int64(len(mon.negs)))
	res.Count("forks_accepted", int64(mon.forkAccepted))
	res.Count("workers_needing_kill", int64(len(mon.needKill)))
	for _, n := range mon.negs {
		if n.ok {
			res.Count("poolready_"+n.kind+"_allowed", 1)
		}
		if n.ready > 0 {
			res.Count("negotiations_with_ready_workers", 1)
		}
	}
	res.Count("max_tracked_sum", int64(mon.maxTotal))
	res.Count("max_ready_sum", int64(mon.maxReady))
	if mon.txs == 0 {
		res.Inconclusive = "the supervisor made no transition"
	}
	return res
}

// step performs one PRNG operation and returns its name.
func (w *world) step(p scenP) string {
	s := w.sup
	r := w.r
	add1 := func(state string, a *node.A) {
		if a == nil {
			s.Mach.Add1(state, nil)
		} else {
			s.Mach.Add1(state, am.Pass(a))
		}
	}
	pickAddr := func() string {
		addrs := w.trackedAddrs()
		if len(addrs) == 0 {
			return ""
		}
		return addrs[r.IntN(len(addrs))]
	}
	if w.mode == "prompt" {
		addrs := w.trackedAddrs()
		switch r.IntN(6) {
		case 0, 1, 2:
			// one recent error on several workers at once (below the kill
			// threshold they stay tracked but do not count as ready)
			if len(addrs) == 0 {
				return "noop"
			}
			r.Shuffle(len(addrs), func(i, j int) { addrs[i], addrs[j] = addrs[j], addrs[i] })
			k := 1 + r.IntN(len(addrs))
			for _, a := range addrs[:k] {
				node.AddErrWorker(nil, s.Mach, errInjected, am.Pass(&node.A{LocalAddr: a}))
			}
			return fmt.Sprintf("err-on-%d-workers", k)
		case 3:
			add1(ssS.NormalizingPool, nil)
			return "normalize"
		case 4:
			if len(addrs) > 0 {
				add1(ssS.KillingWorker, &node.A{LocalAddr: addrs[r.IntN(len(addrs))]})
				return "kill"
			}
			return "noop"
		default:
			add1(ssS.Heartbeat, nil)
			return "heartbeat"
		}
	}
	if w.mode == "gated" {
		switch r.IntN(9) {
		case 0, 1:
			k := 1 + r.IntN(5)
			for i := 0; i < k; i++ {
				add1(ssS.ForkWorker, nil)
			}
			return fmt.Sprintf("fork*%d", k)
		case 2, 3:
			if w.release(true) {
				return "release-ok"
			}
			add1(ssS.ForkWorker, nil)
			return "fork"
		case 4:
			if w.release(false) {
				return "release-err"
			}
			return "noop"
		case 5:
			add1(ssS.NormalizingPool, nil)
			return "normalize"
		case 6:
			add1(ssS.Heartbeat, nil)
			return "heartbeat"
		case 7:
			if addr := pickAddr(); addr != "" {
				k := 1 + r.IntN(p.Kill+2)
				for i := 0; i < k; i++ {
					node.AddErrWorker(nil, s.Mach, errInjected, am.Pass(&node.A{LocalAddr: addr}))
				}
				return fmt.Sprintf("errworker*%d", k)
			}
			add1(ssS.PoolReady, nil)
			return "poolready"
		default:
			if addr := pickAddr(); addr != "" && r.IntN(2) == 0 {
				add1(ssS.KillingWorker, &node.A{LocalAddr: addr})
				return "kill"
			}
			s.Mach.Remove1(ssS.PoolReady, nil)
			return "unready"
		}
	}
	// workers mode
	w.mx.Lock()
	ws := slices.Clone(w.wlist)
	w.mx.Unlock()
	if p.Script == "withdraw" {
		// the pool fills itself up to Max (normalisation); then every way of
		// re-checking PoolReady is tried while all workers stay ready
		switch r.IntN(4) {
		case 0:
			add1(ssS.PoolReady, nil)
			return "poolready"
		case 1:
			s.Mach.Remove1(ssS.PoolReady, nil)
			return "unready"
		case 2:
			add1(ssS.Heartbeat, nil)
			return "heartbeat"
		default:
			add1(ssS.NormalizingPool, nil)
			return "normalize"
		}
	}
	switch r.IntN(9) {
	case 8:
		if addr := pickAddr(); addr != "" {
			k := 1 + r.IntN(p.Kill+2)
			for i := 0; i < k; i++ {
				node.AddErrWorker(nil, s.Mach, errInjected, am.Pass(&node.A{LocalAddr: addr}))
			}
			return fmt.Sprintf("errworker*%d", k)
		}
		return "noop"
	case 0:
		k := 1 + r.IntN(3)
		for i := 0; i < k; i++ {
			add1(ssS.ForkWorker, nil)
		}
		return fmt.Sprintf("fork*%d", k)
	case 1:
		add1(ssS.NormalizingPool, nil)
		return "normalize"
	case 2:
		add1(ssS.Heartbeat, nil)
		return "heartbeat"
	case 3:
		if len(ws) > 0 {
			ws[r.IntN(len(ws))].Stop(false)
			return "worker-stop"
		}
		return "noop"
	case 4:
		if len(ws) > 0 {
			wk := ws[r.IntN(len(ws))]
			k := 1 + r.IntN(p.Kill+2)
			for i := 0; i < k; i++ {
				wk.Mach.AddErr(errInjected, nil)
				wk.Mach.Remove1(am.StateException, nil)
			}
			return fmt.Sprintf("worker-err*%d", k)
		}
		return "noop"
	case 5:
		if addr := pickAddr(); addr != "" {
			add1(ssS.KillingWorker, &node.A{LocalAddr: addr})
			return "kill"
		}
		return "noop"
	case 6:
		s.Mach.Remove1(ssS.PoolReady, nil)
		return "unready"
	default:
		add1(ssS.PoolReady, nil)
		return "poolready"
	}
}
