// C07: auto states are retried after every change and judged one by one.
package main

import (
	"encoding/json"
	"fmt"
	"slices"
	"sort"
	"strings"

	am "github.com/pancsta/asyncmachine-go/pkg/machine"

	"verif/core"
	"verif/gen"
	"verif/oracle"
	"verif/rec"
	"verif/seq"
)

type eng struct{}

func (eng) Property() string { return "C07" }
func (eng) Level() string    { return "exploration" }
func (eng) Rule() string {
	return "cases: PRNG schemas of 3..7 states with 1-5 Auto states (chained by Require, mutually Removing, with Add fans) plus " +
		"the health states Healthcheck/Heartbeat, a recording handler binding over all handler names, histories of 12-25 mutations " +
		"incl. health-check and no-op mutations; the history is first run without vetoes, then with every single veto on an " +
		"Auto state's Enter/self/state-state handler that fired, then with every assignment (<=4 Auto states) or sampled " +
		"assignments of vetoes, plus vetoes of non-auto handlers (Exit, AnyEnter); the unvetoed and the single-veto runs are repeated with " +
		"the AnyState handler of every non-auto transition queueing an arg-less Add of exactly the auto mutation's candidate set. The tracer sequence is judged: next-is-auto " +
		"with exactly the expected called set, no auto after auto/unchanged/health, per-state outcome with excuses, a state rejected by " +
		"its own handler not active afterwards, a transition flagged auto calls Auto states only; runs with a one-shot handler panic inside an auto transition. " +
		"Evaluation = one transition judged; distinct non-trivial = distinct (schema, veto table, history prefix) whose " +
		"transition was an auto mutation or triggered one."
}
func (eng) Assumptions() []string {
	return []string{"which of two mutually Removing Auto states wins is left open",
		"a veto by a handler of a state that is not a called Auto state cancels by the normal rule",
		"no handler faults; handlers issue mutations only in the look-alike runs (AnyState queues an Add of the Auto candidates)"}
}

func (eng) Cases(seed uint64, tier string) []core.CaseDesc {
	n := 300
	if tier == "thorough" {
		n = 200000
	}
	var cs []core.CaseDesc
	for i := 0; i < n; i++ {
		cs = append(cs, core.CaseDesc{ID: fmt.Sprintf("auto/%05d", i), Kind: "auto", Seed: seed*1000003 + uint64(i)})
	}
	for i, d := range directed() {
		raw, _ := json.Marshal(d)
		cs = append(cs, core.CaseDesc{ID: fmt.Sprintf("directed/%02d", i), Kind: "directed", Seed: seed, P: raw})
	}
	return cs
}

type directedP struct {
	Schema gen.SchemaSpec `json:"schema"`
	Veto   []string       `json:"veto"`
	Hist   []gen.Op       `json:"hist"`
}

func directed() []directedP {
	// auto state B displaced by auto state A, B's Exit handler vetoes
	// (formerly a panic on the caller's goroutine, fixed)
	s := gen.SchemaSpec{Names: []string{"A", "B", "C"}, States: map[string]gen.StateSpec{
		"A": {Auto: true, Require: []string{"C"}, Remove: []string{"B"}},
		"B": {Auto: true}, "C": {},
	}}
	// D's Require A only enters through the second parseAdd pass (C -> B -> A)
	s2 := gen.SchemaSpec{Names: []string{"A", "B", "C", "D", "X"}, States: map[string]gen.StateSpec{
		"A": {}, "B": {Add: []string{"A"}}, "C": {Auto: true, Add: []string{"B"}},
		"D": {Auto: true, Require: []string{"A"}}, "X": {},
	}}
	// A vetoed by its own Enter handler, B (accepted in the same auto mutation) Adds A
	s3 := gen.SchemaSpec{Names: []string{"A", "B", "C", "T"}, States: map[string]gen.StateSpec{
		"A": {Auto: true}, "B": {Auto: true, Add: []string{"A"}}, "C": {Auto: true}, "T": {},
	}}
	return []directedP{
		{s3, []string{"AEnter"}, []gen.Op{{Kind: "add", States: []string{"T"}}}},
		{s, []string{"BExit"}, []gen.Op{{Kind: "add", States: []string{"B"}}, {Kind: "add", States: []string{"C"}}}},
		{s2, nil, []gen.Op{{Kind: "add", States: []string{"X"}}}},
	}
}

// second-pass observation (see C02): states entering through the resolver's
// second parseAdd call, per transition.
var secondPass = map[string]map[string]bool{}
var parseAddCalls = map[string]int{}

func init() {
	am.VerifHookSetData("rel.parseAdd", func(args ...any) {
		t := args[0].(*am.Transition)
		in := args[1].(am.S)
		out := args[2].(am.S)
		parseAddCalls[t.Id]++
		if parseAddCalls[t.Id]%2 == 0 {
			mm := secondPass[t.Id]
			if mm == nil {
				mm = map[string]bool{}
				secondPass[t.Id] = mm
			}
			for _, s := range out {
				if !slices.Contains(in, s) {
					mm[s] = true
				}
			}
		}
	})
}

type veto map[string]bool

func vlist(v veto) []string {
	var l []string
	for k := range v {
		l = append(l, k)
	}
	sort.Strings(l)
	return l
}

func isHealthOp(op gen.Op) bool {
	for _, s := range op.States {
		if s != am.StateHealthcheck && s != am.StateHeartbeat {
			return false
		}
	}
	return len(op.States) > 0
}

func run(res *core.CaseResult, spec gen.SchemaSpec, v veto, hist []gen.Op) *seq.Mach {
	return runInj(res, spec, v, hist, false)
}

// runInj: with inject, the last handler of every accepted non-auto transition
// (AnyState) queues an arg-less Add of exactly the states the auto mutation
// is about to call - a user mutation that looks like the auto one and must
// neither replace nor suppress it.
func runInj(res *core.CaseResult, spec gen.SchemaSpec, v veto, hist []gen.Op, inject bool) *seq.Mach {
	return runFault(res, spec, v, hist, inject, "")
}

// runFault: with faultAt, the handler of that name panics the first time it is
// called inside an auto transition. The faulted transition itself is not
// judged; the Exception that follows is an accepted state-changing mutation
// like any other, so the next transition has to be the auto mutation again.
func runFault(res *core.CaseResult, spec gen.SchemaSpec, v veto, hist []gen.Op, inject bool, faultAt string) *seq.Mach {
	faulted := map[string]bool{}
	fired := false
	mc, _ := seq.New(spec, seq.MachOpts{})
	m := mc.M
	names := rec.AllHandlerNames(gen.Sorted(spec.Names))
	stNames := m.StateNames()
	schema := m.Schema()
	injected := 0
	_, _ = rec.BindMaps(m, mc.HLog, 0, names, func(c *rec.HCall, e *am.Event) bool {
		if inject && c.Name == "AnyState" && injected < 40 {
			if tx := e.Transition(); tx != nil && !tx.IsAuto() && !tx.IsHealth() {
				var cands am.S
				for _, s := range stNames {
					if !schema[s].Auto || rec.Has(c.Active, s) {
						continue
					}
					blocked := false
					for _, a := range c.Active {
						if slices.Contains(schema[a].Remove, s) {
							blocked = true
						}
					}
					if !blocked {
						cands = append(cands, s)
					}
				}
				if len(cands) > 0 {
					injected++
					res.Count("lookalike_adds_queued_from_handlers", 1)
					e.Machine().Add(cands, nil)
				}
			}
		}
		if faultAt != "" && c.Name == faultAt && !fired {
			if tx := e.Transition(); tx != nil && tx.IsAuto() {
				fired = true
				faulted[e.TransitionId] = true
				res.Count("handler_panics_inside_auto_transitions", 1)
				panic("c07 fault")
			}
		}
		return !v[c.Name]
	})
	defer m.Dispose()
	for _, op := range hist {
		rec.Apply(m, op)
	}
	txs := mc.Tr.Snapshot()
	calls := mc.HLog.Snapshot()
	ctx := func(i int) any {
		lo := i - 1
		if lo < 0 {
			lo = 0
		}
		hi := i + 2
		if hi > len(txs) {
			hi = len(txs)
		}
		return map[string]any{"schema": spec.String(), "veto": vlist(v), "history": fmt.Sprint(hist), "lookalike_adds_from_anystate": inject, "txs": txs[lo:hi]}
	}
	for i, tx := range txs {
		res.Evals++
		if faulted[tx.TxId] {
			continue
		}
		// a transition flagged auto calls Auto states only
		if tx.IsAuto {
			for _, st := range tx.Called {
				if !schema[st].Auto {
					res.Violate("C07/auto-calls-non-auto-state", fmt.Sprintf("a transition flagged as an auto mutation called %s, which is not an Auto state (called %v)", st, tx.Called), ctx(i))
				}
			}
		}
		changed := !rec.TimeEq(tx.Before, tx.After)
		var next *rec.TxRec
		if i+1 < len(txs) {
			next = txs[i+1]
		}
		trigger := tx.Accepted && changed && !tx.IsAuto && !tx.IsHealth && !tx.IsCheck && !tx.Broken
		if trigger {
			// expected called set from the active set at the end of tx
			var want []string
			for _, s := range stNames {
				if !schema[s].Auto || rec.Has(tx.ActiveEnd, s) {
					continue
				}
				blocked := false
				for _, a := range tx.ActiveEnd {
					if slices.Contains(schema[a].Remove, s) {
						blocked = true
					}
				}
				if !blocked {
					want = append(want, s)
				}
			}
			if len(want) > 0 {
				if next == nil || !next.IsAuto {
					res.Violate("C07/auto-missing", fmt.Sprintf(
						"after an accepted state-changing mutation the next transition is not an auto mutation although %v are "+
							"inactive, unblocked Auto states", want), ctx(i))
				} else if !rec.SameSet(next.Called, want) {
					res.Violate("C07/auto-called-set", fmt.Sprintf(
						"auto mutation called %v, expected exactly the inactive unblocked Auto states %v", next.Called, want), ctx(i))
				}
				res.Key(spec.String(), fmt.Sprint(vlist(v)), fmt.Sprint(hist), i, inject)
			} else if next != nil && next.IsAuto {
				res.Violate("C07/auto-without-candidates", "an auto mutation ran although no Auto state was eligible", ctx(i))
			}
		} else if next != nil && next.IsAuto && !faulted[next.TxId] {
			why := "an unchanged / canceled / check / health transition"
			if tx.IsAuto {
				why = "an auto mutation"
			}
			res.Violate("C07/auto-after-"+strings.Fields(why)[1], "an auto mutation directly followed "+why, ctx(i))
		}
		if tx.IsAuto {
			judgeAuto(res, schema, tx, rec.CallsOfTx(calls, tx.TxId), v, ctx(i))
			res.Key(spec.String(), fmt.Sprint(vlist(v)), fmt.Sprint(hist), i, "auto")
		}
	}
	res.Count("transitions", int64(len(txs)))
	return mc
}

// judgeAuto checks the per-state outcome of one auto mutation.
func judgeAuto(res *core.CaseResult, schema am.Schema, tx *rec.TxRec, calls []rec.HCall, v veto, ctx any) {
	res.Count("auto_mutations", 1)
	// vetoes that happened in this transition
	var vetoed []string
	for _, c := range calls {
		if rec.IsNegotiation(c.Name) && !c.Ret {
			vetoed = append(vetoed, c.Name)
		}
	}
	ownVeto := func(s string) bool {
		for _, n := range vetoed {
			if n == s+"Enter" || n == s+s {
				return true
			}
			// state-state XS: handler of a transition into s
			if strings.HasSuffix(n, s) && n != s+"Exit" && rec.HandlerKind(n) == "pair" {
				return true
			}
		}
		return false
	}
	// a veto by a handler that does not belong to a called Auto state
	foreignVeto := false
	for _, n := range vetoed {
		own := false
		for _, s := range tx.Called {
			if n == s+"Enter" || n == s+s || (rec.HandlerKind(n) == "pair" && strings.HasSuffix(n, s)) {
				own = true
			}
		}
		if !own {
			foreignVeto = true
		}
	}
	base := append(slices.Clone(tx.StatesBef), tx.Called...)
	cand := oracle.AddClosure(schema, base)
	inCand := func(x string) bool { _, ok := cand[x]; return ok }
	for _, s := range tx.Called {
		if rec.Has(tx.ActiveEnd, s) {
			res.Count("auto_state_accepted", 1)
			// rejected by its own Enter / self / state-state handler, yet applied
			if ownVeto(s) && !rec.Has(tx.StatesBef, s) {
				sig := "C07/auto-state-active-despite-own-veto"
				// is s in the Add closure of the other states this mutation
				// started from or called?
				var others []string
				for _, x := range append(slices.Clone(tx.StatesBef), tx.Called...) {
					if x != s {
						others = append(others, x)
					}
				}
				if _, ok := oracle.AddClosure(schema, others)[s]; ok {
					sig += "/pulled-back-by-add-relation"
				}
				res.Violate(sig, fmt.Sprintf(
					"called Auto state %s was rejected by its own negotiation handler (vetoes in this transition: %v) and is active after the auto mutation",
					s, vetoed), ctx)
			}
			continue
		}
		res.Count("auto_state_rejected", 1)
		excused := ownVeto(s) || foreignVeto
		if !excused {
			for _, r := range reqsOf(schema, s) {
				if !rec.Has(tx.ActiveEnd, r) {
					excused = true
				}
				// a (transitive) Require is Removed by a candidate of this
				// mutation: the resolver may drop s before any handler runs
				for x := range schema {
					if x != r && inCand(x) && slices.Contains(schema[x].Remove, r) {
						excused = true
					}
				}
			}
		}
		if !excused {
			for x := range schema {
				if x != s && (rec.Has(tx.ActiveEnd, x) || inCand(x)) && slices.Contains(schema[x].Remove, s) {
					excused = true
				}
			}
		}
		if !excused {
			sig := "C07/auto-state-dropped"
			for _, r := range reqsOf(schema, s) {
				if secondPass[tx.TxId][r] {
					sig = "C07/auto-state-dropped/require-entered-through-second-parseAdd-pass"
				}
			}
			res.Violate(sig, fmt.Sprintf(
				"called Auto state %s is inactive after the auto mutation although its handlers did not veto, its Requires are "+
					"active and nothing Removes it (vetoes in this transition: %v)", s, vetoed), ctx)
		}
	}
}

// reqsOf returns the transitive Require closure of s.
func reqsOf(schema am.Schema, s string) []string {
	reqs := []string{}
	seenR := map[string]bool{s: true}
	stack := append([]string(nil), schema[s].Require...)
	for len(stack) > 0 {
		r := stack[len(stack)-1]
		stack = stack[:len(stack)-1]
		if seenR[r] {
			continue
		}
		seenR[r] = true
		reqs = append(reqs, r)
		stack = append(stack, schema[r].Require...)
	}
	return reqs
}

func (eng) Run(c core.CaseDesc, tier string) *core.CaseResult {
	res := &core.CaseResult{Case: c}
	if c.Kind == "directed" {
		var p directedP
		_ = json.Unmarshal(c.P, &p)
		v := veto{}
		for _, n := range p.Veto {
			v[n] = true
		}
		run(res, p.Schema, v, p.Hist)
		return res
	}
	r := gen.NewRand(c.Seed, 7)
	spec := gen.RandSchema(r, gen.SchemaOpts{MinStates: 3, MaxStates: 7,
		PRequire: r.Float64() * 0.25, PAdd: r.Float64() * 0.3, PRemove: r.Float64() * 0.3,
		PAfter: r.Float64() * 0.1, PAuto: 0.2 + r.Float64()*0.5, PMulti: r.Float64() * 0.2})
	// health states
	spec.Names = append(spec.Names, am.StateHealthcheck, am.StateHeartbeat)
	spec.States[am.StateHealthcheck] = gen.StateSpec{Multi: true}
	spec.States[am.StateHeartbeat] = gen.StateSpec{Multi: true}
	user := spec.Names[:len(spec.Names)-2]
	n := 12 + r.IntN(14)
	var hist []gen.Op
	for i := 0; i < n; i++ {
		switch r.IntN(8) {
		case 0:
			hist = append(hist, gen.Op{Kind: "add", States: []string{[]string{am.StateHealthcheck, am.StateHeartbeat}[r.IntN(2)]}})
		case 1:
			// likely no-op: re-add what is probably active / remove inactive
			hist = append(hist, gen.Op{Kind: []string{"add", "remove"}[r.IntN(2)], States: gen.RandSubset(r, user, false), NoArgs: true})
		default:
			hist = append(hist, gen.RandOp(r, user, []string{"add", "remove", "set", "toggle"}))
		}
	}
	base := run(res, spec, veto{}, hist)
	schema := spec.Schema()
	// positions on auto states
	autoPos := map[string]bool{}
	otherPos := map[string]bool{}
	for _, hc := range base.HLog.Snapshot() {
		if !rec.IsNegotiation(hc.Name) {
			continue
		}
		isAutoH := false
		for _, s := range user {
			if schema[s].Auto && (hc.Name == s+"Enter" || hc.Name == s+s ||
				(rec.HandlerKind(hc.Name) == "pair" && strings.HasSuffix(hc.Name, s))) {
				isAutoH = true
			}
		}
		if isAutoH {
			autoPos[hc.Name] = true
		} else {
			otherPos[hc.Name] = true
		}
	}
	var ap, op []string
	for p := range autoPos {
		ap = append(ap, p)
	}
	for p := range otherPos {
		op = append(op, p)
	}
	sort.Strings(ap)
	sort.Strings(op)
	for _, p := range ap {
		run(res, spec, veto{p: true}, hist)
		res.Count("single_auto_veto_runs", 1)
	}
	// a one-shot panic in each of those handlers, inside an auto transition
	for _, p := range ap {
		runFault(res, spec, veto{}, hist, false, p)
	}
	// the same with look-alike user mutations queued from handlers
	runInj(res, spec, veto{}, hist, true)
	for _, p := range ap {
		runInj(res, spec, veto{p: true}, hist, true)
	}
	if len(ap) <= 4 {
		for mask := 1; mask < 1<<len(ap); mask++ {
			v := veto{}
			for i, p := range ap {
				if mask&(1<<i) != 0 {
					v[p] = true
				}
			}
			if len(v) > 1 {
				run(res, spec, v, hist)
			}
		}
	} else {
		for k := 0; k < 8; k++ {
			v := veto{}
			for _, p := range ap {
				if r.IntN(2) == 0 {
					v[p] = true
				}
			}
			run(res, spec, v, hist)
		}
	}
	for k := 0; k < 3 && len(op) > 0; k++ {
		v := veto{op[r.IntN(len(op))]: true}
		if len(ap) > 0 && r.IntN(2) == 0 {
			v[ap[r.IntN(len(ap))]] = true
		}
		run(res, spec, v, hist)
	}
	if strings.HasSuffix(c.ID, "/00000") {
		res.Sample = map[string]any{"schema": spec.String(), "history": fmt.Sprint(hist), "auto_veto_positions": ap}
	}
	return res
}

func main() { core.Main(eng{}) }
