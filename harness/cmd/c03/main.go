// C03: transitions are all-or-nothing, the Result tells the truth, checks are
// side-effect free and predictive, early returns cancel with no effect.
package main

import (
	"fmt"
	"math/rand/v2"
	"sort"
	"strings"
	"sync"
	"time"

	am "github.com/pancsta/asyncmachine-go/pkg/machine"

	"verif/core"
	"verif/gen"
	"verif/rec"
	"verif/seq"
)

type eng struct{}

func (eng) Property() string { return "C03" }
func (eng) Level() string    { return "exploration" }
func (eng) Rule() string {
	return "cases: (neg) PRNG schema of 2..6 states + 1-3 recording handler bindings + a history of <=10 mutations, run once " +
		"without vetoes to enumerate the negotiation-handler positions (binding, name) that fire, then once per position with " +
		"that handler returning false, then with random veto subsets; (check) CanAdd/CanRemove followed by the same mutation " +
		"under the same veto table; (early) disposed / backing-off / over-queue-limit machines; (enum) all schemas over 2 " +
		"states x all pairs of mutations handler-less; (readers) 1-8 goroutines take single-call snapshots (Time, Clock, StringAll, String, " +
		"Inspect, Export) while 1-3 goroutines mutate, every snapshot must be a vector of the recorded chain. Each mutation is judged from the caller's side (Result, Time before/after) " +
		"and from its own transition located by a unique uid argument; follow cases: the handlers queue follow-up mutations, the Result is compared with the caller's own transition. Distinct non-trivial = distinct (schema, veto table, " +
		"history prefix) in which at least one handler ran or a relation applied."
}
func (eng) Assumptions() []string {
	return []string{
		"single issuing goroutine on an idle machine (the statement's premise); Queued is therefore itself a violation",
		"handlers decide from a static table and ignore the check flag; predictivity is only asserted for non-Multi called sets",
		"backoff is entered by storing LastHandlerDeadline (exported field) with a 1h HandlerBackoff: no wall-clock in the verdict",
	}
}

func mk(id, kind string, seed uint64) core.CaseDesc {
	return core.CaseDesc{ID: id, Kind: kind, Seed: seed}
}

func (eng) Cases(seed uint64, tier string) []core.CaseDesc {
	var cs []core.CaseDesc
	nn, nc, ne := 150, 150, 40
	if tier == "thorough" {
		nn, nc, ne = 120000, 120000, 8000
	}
	for i := 0; i < nn; i++ {
		cs = append(cs, mk(fmt.Sprintf("neg/%05d", i), "neg", seed*1000003+uint64(i)))
	}
	for i := 0; i < nc; i++ {
		cs = append(cs, mk(fmt.Sprintf("check/%05d", i), "check", seed*2000003+uint64(i)))
	}
	for i := 0; i < ne; i++ {
		cs = append(cs, mk(fmt.Sprintf("early/%05d", i), "early", seed*3000003+uint64(i)))
	}
	for i := 0; i < 8; i++ {
		cs = append(cs, core.CaseDesc{ID: fmt.Sprintf("enum/n2/%d", i), Kind: "enum", Seed: uint64(i)})
	}
	nf := 150
	if tier == "thorough" {
		nf = 60000
	}
	for i := 0; i < nf; i++ {
		cs = append(cs, mk(fmt.Sprintf("follow/%05d", i), "follow", seed*6000003+uint64(i)))
	}
	nrd := 150
	if tier == "thorough" {
		nrd = 40000
	}
	for i := 0; i < nrd; i++ {
		cs = append(cs, mk(fmt.Sprintf("readers/%05d", i), "readers", seed*5000003+uint64(i)))
	}
	return cs
}

type vetoTable map[string]bool // "binding|name" -> veto

func key(b int, name string) string { return fmt.Sprintf("%d|%s", b, name) }

type setup struct {
	spec     gen.SchemaSpec
	bindings [][]string // handler names per binding
}

func genSetup(rr *randT) setup {
	spec := gen.RandSchema(rr.R, gen.SchemaOpts{MinStates: 2, MaxStates: 6,
		PRequire: rr.R.Float64() * 0.2, PAdd: rr.R.Float64() * 0.3, PRemove: rr.R.Float64() * 0.3,
		PAfter: rr.R.Float64() * 0.15, PAuto: rr.R.Float64() * 0.25, PMulti: rr.R.Float64() * 0.3})
	nb := 1 + rr.R.IntN(3)
	names := rec.AllHandlerNames(gen.Sorted(spec.Names))
	s := setup{spec: spec}
	for b := 0; b < nb; b++ {
		var sub []string
		for _, n := range names {
			if rr.R.IntN(2) == 0 {
				sub = append(sub, n)
			}
		}
		s.bindings = append(s.bindings, sub)
	}
	return s
}

type randT struct{ R *rand.Rand }

func build(s setup, veto vetoTable, o seq.MachOpts) *seq.Mach {
	mc, _ := seq.New(s.spec, o)
	for b, names := range s.bindings {
		bb := b
		_, _ = rec.BindMaps(mc.M, mc.HLog, b, names, func(c *rec.HCall, e *am.Event) bool {
			return !veto[key(bb, c.Name)]
		})
	}
	return mc
}

type stepCtx struct {
	Schema   string   `json:"schema"`
	Bindings int      `json:"bindings"`
	Veto     []string `json:"veto"`
	History  string   `json:"history"`
	Op       string   `json:"op"`
	Result   string   `json:"result"`
}

func vetoList(v vetoTable) []string {
	var l []string
	for k, x := range v {
		if x {
			l = append(l, k)
		}
	}
	sort.Strings(l)
	return l
}

// judgeOp issues op and checks the caller-side clauses. Returns the result.
func judgeOp(res *core.CaseResult, mc *seq.Mach, s setup, veto vetoTable, hist []gen.Op, i int) am.Result {
	m := mc.M
	op := hist[i]
	tBefore := m.Time(nil)
	qtBefore := m.QueueTick()
	actBefore := m.ActiveStates(nil)
	from := mc.Tr.Len()
	r, uid := rec.Apply(m, op)
	tAfter := m.Time(nil)
	res.Evals++
	ctx := func() any {
		return stepCtx{s.spec.String(), len(s.bindings), vetoList(veto), fmt.Sprint(hist[:i]), op.String(), rec.ResStr(r)}
	}
	isCheck := op.Kind == "canadd" || op.Kind == "canremove"
	own := mc.Tr.FindUid(uid)
	if r != am.Executed && r != am.Canceled {
		res.Violate("C03/queued-on-idle", "a mutation on an idle machine returned "+rec.ResStr(r), ctx())
		return r
	}
	if isCheck {
		if !rec.TimeEq(tBefore, tAfter) {
			res.Violate("C03/check-changed-time", fmt.Sprintf("%s changed time %v -> %v", op, tBefore, tAfter), ctx())
		}
		if m.QueueTick() != qtBefore {
			res.Violate("C03/check-changed-queuetick", fmt.Sprintf("%s changed the queue tick %d -> %d", op, qtBefore, m.QueueTick()), ctx())
		}
		if !rec.SameSet(actBefore, m.ActiveStates(nil)) {
			res.Violate("C03/check-changed-states", fmt.Sprintf("%s changed active states", op), ctx())
		}
		return r
	}
	if r == am.Canceled {
		if !rec.TimeEq(tBefore, tAfter) {
			res.Violate("C03/canceled-changed-time", fmt.Sprintf(
				"%s returned Canceled but time moved %v -> %v", op, tBefore, tAfter), ctx())
		}
		if !rec.SameSet(actBefore, m.ActiveStates(nil)) {
			res.Violate("C03/canceled-changed-states", fmt.Sprintf(
				"%s returned Canceled but active states changed %v -> %v", op, actBefore, m.ActiveStates(nil)), ctx())
		}
		if own != nil && own.Accepted {
			res.Violate("C03/canceled-but-accepted", fmt.Sprintf(
				"%s returned Canceled but its own transition was accepted", op), map[string]any{"ctx": ctx(), "tx": own})
		}
		return r
	}
	// Executed
	if own == nil {
		// Remove of inactive states / duplicates may legitimately have no
		// transition; then nothing may have changed
		if mc.Tr.Len() != from {
			// transitions ran but none carries our uid
			res.Violate("C03/executed-without-own-transition", fmt.Sprintf(
				"%s returned Executed, transitions ran, but none of them is the caller's", op), ctx())
		} else if !rec.TimeEq(tBefore, tAfter) {
			res.Violate("C03/executed-no-transition-but-changed", "time changed without any transition", ctx())
		}
		// the promise still holds at return
		if op.Kind == "remove" {
			for _, st := range op.States {
				if m.Is1(st) {
					res.Violate("C03/executed-remove-still-active", fmt.Sprintf(
						"Remove returned Executed without a transition but %s is active", st), ctx())
				}
			}
		}
		return r
	}
	if !own.Accepted {
		res.Violate("C03/executed-but-not-accepted", fmt.Sprintf(
			"%s returned Executed but its own transition was not accepted", op), map[string]any{"ctx": ctx(), "tx": own})
	}
	switch own.Type {
	case "add":
		for _, st := range own.Called {
			if !rec.Has(own.ActiveEnd, st) {
				res.Violate("C03/executed-add-inactive", fmt.Sprintf(
					"%s returned Executed but called state %s is inactive at the end of its transition (active %v)",
					op, st, own.ActiveEnd), map[string]any{"ctx": ctx(), "tx": own})
			}
		}
	case "remove":
		for _, st := range own.Called {
			if rec.Has(own.ActiveEnd, st) {
				res.Violate("C03/executed-remove-active", fmt.Sprintf(
					"%s returned Executed but called state %s is still active at the end of its transition",
					op, st), map[string]any{"ctx": ctx(), "tx": own})
			}
		}
	case "set":
		if !rec.SameSet(own.ActiveEnd, own.Target) {
			res.Violate("C03/executed-set-mismatch", fmt.Sprintf(
				"%s returned Executed but active set %v differs from the resolved target %v",
				op, own.ActiveEnd, own.Target), map[string]any{"ctx": ctx(), "tx": own})
		}
	}
	return r
}

func runHist(res *core.CaseResult, s setup, veto vetoTable, hist []gen.Op, keyParts ...any) *seq.Mach {
	mc := build(s, veto, seq.MachOpts{})
	for i := range hist {
		judgeOp(res, mc, s, veto, hist, i)
	}
	if mc.HLog.Len() > 0 || s.spec.HasRelations() {
		res.Key(append([]any{s.spec.String(), fmt.Sprint(vetoList(veto)), fmt.Sprint(hist)}, keyParts...)...)
	}
	res.Count("handler_calls", int64(mc.HLog.Len()))
	return mc
}

func (eng) Run(c core.CaseDesc, tier string) *core.CaseResult {
	res := &core.CaseResult{Case: c}
	r := gen.NewRand(c.Seed, 5)
	rr := &randT{r}
	switch c.Kind {
	case "follow":
		runFollow(res, c, r)
	case "neg":
		s := genSetup(rr)
		hist := gen.RandHistory(r, s.spec.Names, []string{"add", "remove", "set", "toggle", "add"}, 3+r.IntN(8))
		base := runHist(res, s, vetoTable{}, hist)
		// positions = distinct negotiation (binding,name) that fired
		pos := map[string]bool{}
		for _, hc := range base.HLog.Snapshot() {
			if rec.IsNegotiation(hc.Name) {
				pos[key(hc.Binding, hc.Name)] = true
			}
		}
		base.M.Dispose()
		var plist []string
		for p := range pos {
			plist = append(plist, p)
		}
		sort.Strings(plist)
		for _, p := range plist {
			mc := runHist(res, s, vetoTable{p: true}, hist)
			mc.M.Dispose()
			res.Count("single_veto_runs", 1)
		}
		for k := 0; k < 3 && len(plist) > 1; k++ {
			v := vetoTable{}
			for _, p := range plist {
				if r.IntN(3) == 0 {
					v[p] = true
				}
			}
			mc := runHist(res, s, v, hist)
			mc.M.Dispose()
		}
		if strings.HasSuffix(c.ID, "/00000") {
			res.Sample = map[string]any{"schema": s.spec.String(), "bindings": len(s.bindings),
				"history": fmt.Sprint(hist), "veto_positions": plist}
		}
	case "check":
		s := genSetup(rr)
		// veto table: random negotiation names
		v := vetoTable{}
		for b, names := range s.bindings {
			for _, n := range names {
				if rec.IsNegotiation(n) && r.IntN(6) == 0 {
					v[key(b, n)] = true
				}
			}
		}
		mc := build(s, v, seq.MachOpts{})
		schema := mc.M.Schema()
		var hist []gen.Op
		for i := 0; i < 12; i++ {
			st := gen.RandSubset(r, s.spec.Names, false)
			multi := false
			for _, x := range st {
				if schema[x].Multi {
					multi = true
				}
			}
			kind := []string{"add", "remove"}[r.IntN(2)]
			hist = append(hist, gen.Op{Kind: "can" + kind, States: st})
			rc := judgeOp(res, mc, s, v, hist, len(hist)-1)
			hist = append(hist, gen.Op{Kind: kind, States: st})
			rm := judgeOp(res, mc, s, v, hist, len(hist)-1)
			res.Count("check_pairs", 1)
			if !multi && rc != rm {
				res.Violate("C03/check-not-predictive", fmt.Sprintf(
					"Can%s(%v) answered %s but the same mutation issued next returned %s", kind, st,
					rec.ResStr(rc), rec.ResStr(rm)),
					stepCtx{s.spec.String(), len(s.bindings), vetoList(v), fmt.Sprint(hist), kind, rec.ResStr(rm)})
			}
			res.Key(c.Seed, i)
		}
		mc.M.Dispose()
		if strings.HasSuffix(c.ID, "/00000") {
			res.Sample = map[string]any{"schema": s.spec.String(), "veto": vetoList(v), "pairs": fmt.Sprint(hist[:6])}
		}
	case "early":
		runEarly(res, c, rr)
	case "readers":
		// no observer sees a half-applied transition
		seq.ReaderStress(res, c, "C03")
	case "enum":
		total := uint64(1) << gen.EnumBits(2, true)
		lo, hi := c.Seed*total/8, (c.Seed+1)*total/8
		for idx := lo; idx < hi; idx++ {
			spec, ok := gen.EnumSchema(2, true, idx)
			if !ok {
				continue
			}
			s := setup{spec: spec}
			subs := gen.Subsets(spec.Names)
			for _, k1 := range []string{"add", "remove", "set", "toggle"} {
				for _, s1 := range subs {
					for _, k2 := range []string{"add", "remove", "set", "toggle", "canadd", "canremove"} {
						for _, s2 := range subs {
							h := []gen.Op{{Kind: k1, States: s1}, {Kind: k2, States: s2}}
							runHist(res, s, vetoTable{}, h)
						}
					}
				}
			}
		}
	}
	return res
}

// runFollow: the caller is still alone and the machine idle, but the
// handlers of its transitions queue follow-up mutations of their own (which
// run in the same drain, with whatever outcome). The returned Result has to
// tell the truth about the caller's own transition.
func runFollow(res *core.CaseResult, c core.CaseDesc, r *rand.Rand) {
	spec := gen.RandSchema(r, gen.SchemaOpts{MinStates: 3, MaxStates: 5,
		PRequire: r.Float64() * 0.25, PAdd: r.Float64() * 0.2, PRemove: r.Float64() * 0.3, PMulti: r.Float64() * 0.3})
	mc, _ := seq.New(spec, seq.MachOpts{})
	m := mc.M
	defer m.Dispose()
	names := rec.AllHandlerNames(gen.Sorted(spec.Names))
	veto := map[string]bool{}
	for _, n := range names {
		if rec.IsNegotiation(n) && r.IntN(6) == 0 {
			veto[n] = true
		}
	}
	var mx sync.Mutex
	hr := rand.New(rand.NewPCG(c.Seed, 77))
	budget := 30
	_, _ = rec.BindMaps(m, mc.HLog, 0, names, func(hc *rec.HCall, e *am.Event) bool {
		if !rec.IsNegotiation(hc.Name) && !e.IsCheck {
			mx.Lock()
			do := budget > 0 && hr.IntN(3) == 0
			var op gen.Op
			if do {
				budget--
				op = gen.RandOp(hr, spec.Names, []string{"add", "remove", "set"})
				op.NoArgs = false
			}
			mx.Unlock()
			if do {
				rec.Apply(e.Machine(), op)
			}
		}
		return !veto[hc.Name]
	})
	hist := gen.RandHistory(r, spec.Names, []string{"add", "remove", "set", "add"}, 6+r.IntN(10))
	for i, op := range hist {
		op.NoArgs = false // every mutation carries its uid
		rs, uid := rec.Apply(m, op)
		res.Evals++
		own := mc.Tr.FindUid(uid)
		ctx := func() any {
			var vl []string
			for k := range veto {
				vl = append(vl, k)
			}
			sort.Strings(vl)
			return map[string]any{"schema": spec.String(), "veto": vl, "history": fmt.Sprint(hist[:i+1]), "result": rec.ResStr(rs), "own": own}
		}
		if rs != am.Executed && rs != am.Canceled {
			res.Violate("C03/queued-on-idle", "a mutation on an idle machine returned "+rec.ResStr(rs), ctx())
			return
		}
		if own == nil || own.Broken {
			continue
		}
		res.Key(c.Seed, i, own.Accepted)
		if rs == am.Executed && !own.Accepted {
			res.Violate("C03/executed-but-not-accepted/handler-queued-followups", fmt.Sprintf(
				"%s returned Executed but its own transition was not accepted (its handlers queued follow-up mutations, which ran in the same drain)", op), ctx())
			return
		}
		if rs == am.Canceled && own.Accepted {
			res.Violate("C03/canceled-but-accepted/handler-queued-followups", fmt.Sprintf(
				"%s returned Canceled but its own transition was accepted and applied (its handlers queued follow-up mutations, which ran in the same drain)", op), ctx())
			return
		}
	}
	res.Count("followups_queued_by_handlers", int64(30-budget))
}

func runEarly(res *core.CaseResult, c core.CaseDesc, rr *randT) {
	r := rr.R
	s := genSetup(rr)
	names := s.spec.Names
	mode := r.IntN(3)
	ops := func() []gen.Op {
		var l []gen.Op
		for _, k := range []string{"add", "remove", "set", "toggle", "canadd", "canremove", "adderr"} {
			l = append(l, gen.Op{Kind: k, States: gen.RandSubset(r, names, false)})
		}
		return l
	}
	switch mode {
	case 0: // disposed
		mc := build(s, vetoTable{}, seq.MachOpts{})
		pre := gen.RandHistory(r, names, gen.OpKindsMut, 3)
		for _, op := range pre {
			rec.Apply(mc.M, op)
		}
		mc.M.Dispose()
		select {
		case <-mc.M.WhenDisposed():
		case <-time.After(20 * time.Second):
			res.Inconclusive = "dispose did not complete"
			return
		}
		n0 := mc.Tr.Len()
		for _, op := range ops() {
			res.Evals++
			rs, _ := rec.Apply(mc.M, op)
			if rs != am.Canceled {
				res.Violate("C03/disposed-not-canceled/"+op.Kind, fmt.Sprintf(
					"%s on a disposed machine returned %s", op, rec.ResStr(rs)), s.spec.String())
			}
		}
		if mc.Tr.Len() != n0 {
			res.Violate("C03/disposed-had-effect", "a transition ran on a disposed machine", s.spec.String())
		}
		res.Key("disposed", c.Seed)
	case 1: // backoff
		mc := build(s, vetoTable{}, seq.MachOpts{})
		mc.M.HandlerBackoff = time.Hour
		pre := gen.RandHistory(r, names, gen.OpKindsMut, 3)
		for _, op := range pre {
			rec.Apply(mc.M, op)
		}
		now := time.Now()
		mc.M.LastHandlerDeadline.Store(&now)
		if !mc.M.Backoff() {
			res.Inconclusive = "Backoff() not reported"
			return
		}
		n0 := mc.Tr.Len()
		t0 := mc.M.Time(nil)
		for _, op := range ops() {
			res.Evals++
			rs, _ := rec.Apply(mc.M, op)
			if rs != am.Canceled {
				res.Violate("C03/backoff-not-canceled/"+op.Kind, fmt.Sprintf(
					"%s on a backing-off machine returned %s", op, rec.ResStr(rs)), s.spec.String())
			}
		}
		if mc.Tr.Len() != n0 || !rec.TimeEq(t0, mc.M.Time(nil)) {
			res.Violate("C03/backoff-had-effect", "a mutation on a backing-off machine had an effect",
				map[string]any{"schema": s.spec.String(), "time_before": t0, "time_after": mc.M.Time(nil)})
		}
		res.Key("backoff", c.Seed)
		mc.M.LastHandlerDeadline.Store(nil)
		mc.M.Dispose()
	case 2: // queue limit, filled from inside a final handler
		limit := 2 + r.IntN(3)
		spec := gen.SchemaSpec{Names: []string{"A", "B", "C", "D"}, States: map[string]gen.StateSpec{
			"A": {}, "B": {Multi: true}, "C": {Multi: true}, "D": {}}}
		mc, _ := seq.New(spec, seq.MachOpts{QueueLimit: uint16(limit)})
		m := mc.M
		type issued struct {
			uid    string
			res    am.Result
			qlen   uint16
			isExc  bool
			kind   string
			states []string
		}
		var iss []issued
		k := limit + 1 + r.IntN(4)
		withExc := r.IntN(2) == 0
		_, _ = m.HandlersBindMaps(nil, map[string]am.HandlerFinal{
			"AState": func(e *am.Event) {
				for i := 0; i < k; i++ {
					uid := rec.NextUid()
					ql := m.QueueLen()
					kind := []string{"add", "remove", "set"}[r.IntN(3)]
					st := []string{[]string{"B", "C"}[r.IntN(2)]}
					var rs am.Result
					switch kind {
					case "add":
						rs = m.Add(am.S(st), am.A{"uid": uid})
					case "remove":
						// only ever remove an active state so the early return
						// does not apply
						st = []string{"A"}
						rs = m.Remove(am.S(st), am.A{"uid": uid})
					case "set":
						rs = m.Set(am.S(append(st, "A")), am.A{"uid": uid})
					}
					iss = append(iss, issued{uid, rs, ql, false, kind, st})
				}
				if withExc {
					uid := rec.NextUid()
					ql := m.QueueLen()
					rs := m.Add(am.S{am.StateException}, am.A{"uid": uid})
					iss = append(iss, issued{uid, rs, ql, true, "add", []string{"Exception"}})
				}
			},
		})
		m.Add1("A", nil)
		<-m.WhenQueueEnds()
		txs := mc.Tr.Snapshot()
		seen := map[string]int{}
		for _, tx := range txs {
			if tx.Uid != "" {
				seen[tx.Uid]++
			}
		}
		ctx := map[string]any{"limit": limit, "issued": fmt.Sprint(iss)}
		for _, is := range iss {
			res.Evals++
			over := int(is.qlen) >= limit
			switch {
			case over && !is.isExc:
				if is.res != am.Canceled {
					res.Violate("C03/queue-limit-not-canceled/"+is.kind, fmt.Sprintf(
						"%s%v issued with queue length %d >= limit %d returned %s", is.kind, is.states, is.qlen, limit,
						rec.ResStr(is.res)), ctx)
				}
				if seen[is.uid] > 0 {
					res.Violate("C03/queue-limit-had-effect", "a mutation beyond the queue limit was processed", ctx)
				}
			case over && is.isExc:
				if is.res == am.Canceled {
					res.Violate("C03/queue-limit-exception-refused",
						"a single Exception beyond the queue limit was refused", ctx)
				}
			case !over:
				if is.res == am.Canceled {
					res.Violate("C03/under-limit-canceled", fmt.Sprintf(
						"%s%v issued with queue length %d < limit %d was Canceled", is.kind, is.states, is.qlen, limit), ctx)
				} else if seen[is.uid] != 1 {
					res.Violate("C03/under-limit-not-processed-once", fmt.Sprintf(
						"queued mutation processed %d times", seen[is.uid]), ctx)
				}
			}
		}
		res.Key("qlimit", limit, k, withExc)
		m.Dispose()
	}
}

func main() { core.Main(eng{}) }
