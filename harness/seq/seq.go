// Package seq holds what the sequential engines share: machine construction
// from generated specs, view extraction and the clock-delta oracle.
package seq

import (
	"context"
	"fmt"
	"regexp"
	"sort"
	"strconv"
	"strings"
	"time"

	am "github.com/pancsta/asyncmachine-go/pkg/machine"

	"verif/gen"
	"verif/rec"
)

// Mach bundles a machine with its monitors.
type Mach struct {
	M    *am.Machine
	Tr   *rec.Tracer
	HLog *rec.HLog
	Spec gen.SchemaSpec
}

type MachOpts struct {
	Tracers        int
	HandlerTimeout time.Duration
	QueueLimit     uint16
	Id             string
	// Pre are tracers placed before the recording ones
	Pre []am.Tracer
}

// New creates a machine for spec with a recording tracer (and more tracers if
// asked). Handlers are bound separately.
func New(spec gen.SchemaSpec, o MachOpts) (*Mach, []*rec.Tracer) {
	n := o.Tracers
	if n < 1 {
		n = 1
	}
	var trs []*rec.Tracer
	amtr := append([]am.Tracer{}, o.Pre...)
	for i := 0; i < n; i++ {
		t := rec.NewTracer(fmt.Sprintf("rec%d", i))
		trs = append(trs, t)
		amtr = append(amtr, t)
	}
	id := o.Id
	if id == "" {
		id = "vm"
	}
	opts := &am.Opts{
		Id: id, Tracers: amtr, DontLogId: true, DontLogStackTrace: true,
		QueueLimit: o.QueueLimit,
	}
	if o.HandlerTimeout != 0 {
		opts.HandlerTimeout = o.HandlerTimeout
	} else {
		// generous: sequential engines never want a spurious timeout
		opts.HandlerTimeout = 30 * time.Second
	}
	m := am.New(context.Background(), spec.Schema(), opts)
	return &Mach{M: m, Tr: trs[0], HLog: &rec.HLog{}, Spec: spec}, trs
}

// View is one (active set, tick vector) reading.
type View struct {
	Name   string
	Active []string // sorted; nil = view has no activity info
	Ticks  []uint64 // by state index; nil = view has no tick info
}

var reStr = regexp.MustCompile(`([A-Za-z0-9_]+):(\d+)`)

func parseStringAll(names am.S, s string) (active []string, ticks []uint64, ok bool) {
	// (A:1 B:3) [C:2]
	i := strings.Index(s, ")")
	if !strings.HasPrefix(s, "(") || i < 0 {
		return nil, nil, false
	}
	ticks = make([]uint64, len(names))
	seen := 0
	for _, m := range reStr.FindAllStringSubmatch(s[:i], -1) {
		active = append(active, m[1])
		v, _ := strconv.ParseUint(m[2], 10, 64)
		idx := indexOf(names, m[1])
		if idx < 0 {
			return nil, nil, false
		}
		ticks[idx] = v
		seen++
	}
	for _, m := range reStr.FindAllStringSubmatch(s[i:], -1) {
		v, _ := strconv.ParseUint(m[2], 10, 64)
		idx := indexOf(names, m[1])
		if idx < 0 {
			return nil, nil, false
		}
		ticks[idx] = v
		seen++
	}
	sort.Strings(active)
	return active, ticks, seen == len(names)
}

func indexOf(l []string, s string) int {
	for i, x := range l {
		if x == s {
			return i
		}
	}
	return -1
}

var reInspect = regexp.MustCompile(`(?m)^([01]) (\S+)\n\s+\|Tick\s+(\d+)`)

// Views reads every single-call view of the machine. Must be called at
// quiescence when views are compared with each other.
func Views(m *am.Machine) []View {
	names := m.StateNames()
	var vs []View

	// Time
	t := m.Time(nil)
	vs = append(vs, View{"Time", rec.ActiveFromTime(names, t), t})
	// Clock
	cl := m.Clock(nil)
	ct := make([]uint64, len(names))
	for i, n := range names {
		ct[i] = cl[n]
	}
	vs = append(vs, View{"Clock", rec.ActiveFromTime(names, ct), ct})
	// Tick
	tt := make([]uint64, len(names))
	for i, n := range names {
		tt[i] = m.Tick(n)
	}
	vs = append(vs, View{"Tick", rec.ActiveFromTime(names, tt), tt})
	// ActiveStates
	vs = append(vs, View{"ActiveStates", gen.Sorted(m.ActiveStates(nil)), nil})
	// Is1 / Not1 / Any1
	var is1, not1, any1 []string
	for _, n := range names {
		if m.Is1(n) {
			is1 = append(is1, n)
		}
		if !m.Not1(n) {
			not1 = append(not1, n)
		}
		if m.Any1(n) {
			any1 = append(any1, n)
		}
	}
	vs = append(vs, View{"Is1", gen.Sorted(is1), nil}, View{"Not1", gen.Sorted(not1), nil},
		View{"Any1", gen.Sorted(any1), nil})
	// Is(all active) and Not(all inactive)
	act := m.ActiveStates(nil)
	if !m.Is(act) {
		vs = append(vs, View{"Is(ActiveStates())=false", []string{"<contradiction>"}, nil})
	}
	// StringAll
	if a, tk, ok := parseStringAll(names, m.StringAll()); ok {
		vs = append(vs, View{"StringAll", a, tk})
	} else {
		vs = append(vs, View{"StringAll(unparsable:" + m.StringAll() + ")", []string{"<unparsable>"}, nil})
	}
	// String: active only
	{
		s := m.String()
		var a []string
		tk := map[string]uint64{}
		for _, mm := range reStr.FindAllStringSubmatch(s, -1) {
			a = append(a, mm[1])
			v, _ := strconv.ParseUint(mm[2], 10, 64)
			tk[mm[1]] = v
		}
		sort.Strings(a)
		v := View{"String", a, nil}
		// ticks of active ones must match Time
		for n, x := range tk {
			if i := indexOf(names, n); i >= 0 && t[i] != x {
				v.Active = append(v.Active, fmt.Sprintf("<tick of %s %d != Time %d>", n, x, t[i]))
			}
		}
		vs = append(vs, v)
	}
	// Inspect
	{
		s := m.Inspect(nil)
		var a []string
		tk := make([]uint64, len(names))
		cnt := 0
		for _, mm := range reInspect.FindAllStringSubmatch(s, -1) {
			idx := indexOf(names, mm[2])
			if idx < 0 {
				continue
			}
			cnt++
			if mm[1] == "1" {
				a = append(a, mm[2])
			}
			tk[idx], _ = strconv.ParseUint(mm[3], 10, 64)
		}
		sort.Strings(a)
		if cnt == len(names) {
			vs = append(vs, View{"Inspect", a, tk})
		}
	}
	// Export
	if ser, _, err := m.Export(); err == nil && ser != nil {
		vs = append(vs, View{"Export", rec.ActiveFromTime(ser.StateNames, ser.Time), ser.Time})
	}
	return vs
}

// ViewsDisagree returns a description of the first disagreement, or "".
func ViewsDisagree(names am.S, vs []View) string {
	var refA []string
	var refT []uint64
	refAN, refTN := "", ""
	for _, v := range vs {
		if v.Active != nil || v.Ticks != nil {
			a := v.Active
			if a == nil {
				a = []string{}
			}
			sa := gen.Sorted(a)
			if refAN == "" {
				refA, refAN = sa, v.Name
			} else if strings.Join(refA, ",") != strings.Join(sa, ",") {
				return fmt.Sprintf("active set by %s = %v but by %s = %v", refAN, refA, v.Name, sa)
			}
		}
		if v.Ticks != nil {
			if refTN == "" {
				refT, refTN = v.Ticks, v.Name
			} else if !rec.TimeEq(refT, v.Ticks) {
				return fmt.Sprintf("ticks by %s = %v but by %s = %v", refTN, refT, v.Name, v.Ticks)
			}
			// parity = activity inside one view
			pa := gen.Sorted(rec.ActiveFromTime(names, v.Ticks))
			sa := gen.Sorted(v.Active)
			if strings.Join(pa, ",") != strings.Join(sa, ",") {
				return fmt.Sprintf("view %s: odd ticks %v but active %v", v.Name, pa, sa)
			}
		}
	}
	if refTN != "" && refAN != "" {
		pa := gen.Sorted(rec.ActiveFromTime(names, refT))
		if strings.Join(pa, ",") != strings.Join(refA, ",") {
			return fmt.Sprintf("odd ticks (%s) %v but active set (%s) %v", refTN, pa, refAN, refA)
		}
	}
	return ""
}

// DeltaViolation checks the documented clock step of one fault-free
// transition. schema = parsed schema; names = state order.
func DeltaViolation(schema am.Schema, names am.S, tx *rec.TxRec) string {
	if len(tx.Before) != len(tx.After) {
		return fmt.Sprintf("time vectors of different length %d vs %d", len(tx.Before), len(tx.After))
	}
	for i := range tx.Before {
		if tx.After[i] < tx.Before[i] {
			return fmt.Sprintf("tick of %s decreased %d -> %d", names[i], tx.Before[i], tx.After[i])
		}
		d := tx.After[i] - tx.Before[i]
		n := names[i]
		if !tx.Accepted || tx.IsCheck {
			if d != 0 {
				return fmt.Sprintf("canceled or check transition moved the tick of %s by %d", n, d)
			}
			continue
		}
		wasActive := tx.Before[i]%2 == 1
		isActive := tx.After[i]%2 == 1
		switch d {
		case 0:
			if wasActive != isActive {
				return "impossible"
			}
		case 1:
			// flipped activity: always legal as a step size
		case 2:
			called := rec.Has(tx.Called, n)
			if !(schema[n].Multi && called && wasActive && tx.Type != "remove") {
				return fmt.Sprintf("tick of %s moved by +2 but it is not a directly called, already active Multi state "+
					"(multi=%v called=%v active_before=%v type=%s)", n, schema[n].Multi, called, wasActive, tx.Type)
			}
		default:
			return fmt.Sprintf("tick of %s moved by %d in one transition", n, d)
		}
	}
	return ""
}

// ParseStringAll parses one StringAll reading into a view (empty on failure).
func ParseStringAll(names am.S, s string) []View {
	a, t, ok := parseStringAll(names, s)
	if !ok {
		return nil
	}
	if a == nil {
		a = []string{}
	}
	return []View{{"StringAll", a, t}}
}
