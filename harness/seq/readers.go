package seq

import (
	"fmt"
	"runtime"
	"strconv"
	"sync"
	"sync/atomic"

	am "github.com/pancsta/asyncmachine-go/pkg/machine"

	"verif/core"
	"verif/gen"
	"verif/rec"
)

type snap struct {
	view string
	t    am.Time
	// inflight: a transition was running when the snapshot was taken
	inflight bool
}

// ReaderStress runs 1-8 reader goroutines over the single-call snapshot views
// while 1-3 goroutines mutate; every snapshot must be internally consistent, an
// element of the recorded time chain, and monotone per reader.
func ReaderStress(res *core.CaseResult, c core.CaseDesc, prop string) {
	r := gen.NewRand(c.Seed, 2)
	spec := gen.RandSchema(r, gen.SchemaOpts{MinStates: 2, MaxStates: 5,
		PRequire: r.Float64() * 0.2, PAdd: r.Float64() * 0.3, PRemove: r.Float64() * 0.3,
		PAuto: r.Float64() * 0.3, PMulti: r.Float64() * 0.4})
	mc, _ := New(spec, MachOpts{})
	m := mc.M
	mc.Tr.NoSample = true
	nReaders := 1 + r.IntN(8)
	nMut := 1 + r.IntN(3)
	procs := []int{2, 4, 16}[r.IntN(3)]
	old := runtime.GOMAXPROCS(procs)
	defer runtime.GOMAXPROCS(old)
	yields := 1 + r.IntN(4)
	y := func() {
		for i := 0; i < yields; i++ {
			runtime.Gosched()
		}
	}
	am.VerifHookClear()
	am.VerifHookSet("tx.applied", y)
	am.VerifHookSet("tx.before-end", y)
	defer am.VerifHookClear()

	names := m.StateNames()
	t0 := m.Time(nil)
	var stop atomic.Bool
	var wg, wgR sync.WaitGroup
	// mutators
	hists := make([][]gen.Op, nMut)
	for i := range hists {
		hists[i] = gen.RandHistory(r, spec.Names, []string{"add", "remove", "set", "toggle", "add", "remove"}, 20+r.IntN(30))
	}
	snaps := make([][]snap, nReaders)
	viewSel := make([]int, nReaders)
	for i := range viewSel {
		viewSel[i] = r.IntN(6)
	}
	var incons atomic.Value
	for i := 0; i < nReaders; i++ {
		wgR.Add(1)
		go func(i int) {
			defer wgR.Done()
			k := viewSel[i]
			for n := 0; !stop.Load() && n < 20000; n++ {
				infl := m.Transition() != nil
				var s snap
				switch (k + n) % 6 {
				case 0:
					s = snap{"Time", m.Time(nil), infl}
				case 1:
					cl := m.Clock(nil)
					t := make(am.Time, len(names))
					for j, nm := range names {
						t[j] = cl[nm]
					}
					s = snap{"Clock", t, infl}
				case 2:
					str := m.StringAll()
					vs := []View{}
					if str != "" {
						// internal consistency of one StringAll reading
						act, tk := parseSA(names, str)
						vs = append(vs, View{Name: "StringAll", Active: act, Ticks: tk})
						if d := ViewsDisagree(names, vs); d != "" {
							incons.Store("StringAll reading inconsistent: " + d + " in " + str)
						}
						s = snap{"StringAll", tk, infl}
					}
				case 3:
					ser, _, err := m.Export()
					if err == nil && ser != nil {
						s = snap{"Export", ser.Time, infl}
					}
				case 4:
					// String lists only the active states, each with its tick:
					// every listed tick must be odd
					str := m.String()
					for _, mm := range reStr.FindAllStringSubmatch(str, -1) {
						if v, _ := strconv.ParseUint(mm[2], 10, 64); v%2 == 0 {
							incons.Store("String() lists " + mm[1] + " as active with the even tick " + mm[2] + ": " + str)
						}
					}
				case 5:
					// Inspect: active flag and tick of every state in one reading
					str := m.Inspect(nil)
					tk := make(am.Time, len(names))
					cnt := 0
					for _, mm := range reInspect.FindAllStringSubmatch(str, -1) {
						idx := indexOf(names, mm[2])
						if idx < 0 {
							continue
						}
						cnt++
						v, _ := strconv.ParseUint(mm[3], 10, 64)
						tk[idx] = v
						if (mm[1] == "1") != (v%2 == 1) {
							incons.Store("Inspect() reports " + mm[2] + " active=" + mm[1] + " with tick " + mm[3])
						}
					}
					if cnt == len(names) {
						s = snap{"Inspect", tk, infl}
					}
				}
				if s.t != nil {
					snaps[i] = append(snaps[i], s)
				}
				if n%3 == 0 {
					runtime.Gosched()
				}
			}
		}(i)
	}
	for i := 0; i < nMut; i++ {
		wg.Add(1)
		go func(h []gen.Op) {
			defer wg.Done()
			for _, op := range h {
				rec.Apply(m, op)
			}
		}(hists[i])
	}
	wg.Wait()
	<-m.WhenQueueEnds()
	stop.Store(true)
	wgR.Wait()

	// chain
	txs := mc.Tr.Snapshot()
	chain := map[string]int{fmt.Sprint(t0): 0}
	for i, tx := range txs {
		chain[fmt.Sprint(tx.After)] = i + 1
	}
	ctx := map[string]any{"schema": spec.String(), "readers": nReaders, "mutators": nMut, "gomaxprocs": procs}
	if v := incons.Load(); v != nil {
		res.Violate(prop+"/reader/view-inconsistent", v.(string), ctx)
	}
	for i := range snaps {
		var prev am.Time
		for _, s := range snaps[i] {
			res.Evals++
			if _, ok := chain[fmt.Sprint(s.t)]; !ok {
				res.Violate(prop+"/reader/torn-vector", fmt.Sprintf(
					"reader saw %s = %v which is neither the initial time nor the time-after of any transition",
					s.view, s.t), ctx)
			}
			if prev != nil {
				for j := range s.t {
					if j < len(prev) && s.t[j] < prev[j] {
						res.Violate(prop+"/reader/decreased", fmt.Sprintf(
							"one reader saw the tick of %s go from %d to %d", names[j], prev[j], s.t[j]), ctx)
					}
				}
			}
			prev = s.t
			if s.inflight {
				res.Key(c.Seed, i, s.view, fmt.Sprint(s.t))
				res.Count("snapshots_during_transition", 1)
			}
		}
	}
	hits := am.VerifHookHits()
	res.Count("hook_tx.applied", int64(hits["tx.applied"]))
	res.Count("transitions", int64(len(txs)))
	if c.ID == "readers/00000" {
		res.Sample = map[string]any{"ctx": ctx, "transitions": len(txs), "snapshots": len(snaps[0])}
	}
}

func parseSA(names am.S, s string) ([]string, []uint64) {
	for _, v := range ParseStringAll(names, s) {
		return v.Active, v.Ticks
	}
	return nil, nil
}

