module verif

go 1.25.0

require (
	github.com/anishathalye/porcupine v1.3.0
	github.com/gdamore/tcell/v2 v2.13.9
	github.com/pancsta/asyncmachine-go v0.0.0
)

require (
	filippo.io/edwards25519 v1.1.0 // indirect
	github.com/AlexanderGrooff/mermaid-ascii v0.0.0-20260221123917-b5d02c35decf // indirect
	github.com/PuerkitoBio/goquery v1.10.0 // indirect
	github.com/RoaringBitmap/roaring v1.9.4 // indirect
	github.com/alecthomas/chroma/v2 v2.14.0 // indirect
	github.com/alitto/pond/v2 v2.7.1 // indirect
	github.com/andybalholm/brotli v1.2.0 // indirect
	github.com/andybalholm/cascadia v1.3.2 // indirect
	github.com/anmitsu/go-shlex v0.0.0-20200514113438-38f4b401e2be // indirect
	github.com/apache/arrow-go/v18 v18.4.1 // indirect
	github.com/apache/thrift v0.22.0 // indirect
	github.com/benbjohnson/immutable v0.4.0 // indirect
	github.com/beorn7/perks v1.0.1 // indirect
	github.com/bits-and-blooms/bitset v1.13.0 // indirect
	github.com/cenkalti/hub v1.0.2 // indirect
	github.com/cenkalti/rpc2 v1.0.4 // indirect
	github.com/cespare/xxhash/v2 v2.3.0 // indirect
	github.com/charmbracelet/ssh v0.0.0-20250826160808-ebfa259c7309 // indirect
	github.com/charmbracelet/x/termios v0.1.0 // indirect
	github.com/clipperhouse/uax29/v2 v2.2.0 // indirect
	github.com/coder/websocket v1.8.12 // indirect
	github.com/coreos/etcd v3.3.27+incompatible // indirect
	github.com/coreos/go-systemd v0.0.0-20191104093116-d3cd4ed1dbcf // indirect
	github.com/coreos/pkg v0.0.0-20220810130054-c7d1c02cb6cf // indirect
	github.com/creack/pty v1.1.21 // indirect
	github.com/davecgh/go-spew v1.1.2-0.20180830191138-d8f796af33cc // indirect
	github.com/dgraph-io/badger/v4 v4.9.1 // indirect
	github.com/dgraph-io/ristretto/v2 v2.2.0 // indirect
	github.com/dgryski/go-metro v0.0.0-20250106013310-edb8663e5e33 // indirect
	github.com/dlclark/regexp2 v1.11.4 // indirect
	github.com/dominikbraun/graph v0.23.0 // indirect
	github.com/dop251/goja v0.0.0-20240927123429-241b342198c2 // indirect
	github.com/dustin/go-humanize v1.0.1 // indirect
	github.com/efficientgo/core v1.0.0-rc.2 // indirect
	github.com/failsafe-go/failsafe-go v0.6.8 // indirect
	github.com/gdamore/encoding v1.0.1 // indirect
	github.com/go-kit/log v0.2.1 // indirect
	github.com/go-logfmt/logfmt v0.6.0 // indirect
	github.com/go-logr/logr v1.4.3 // indirect
	github.com/go-logr/stdr v1.2.2 // indirect
	github.com/go-sourcemap/sourcemap v2.1.4+incompatible // indirect
	github.com/go-sql-driver/mysql v1.8.1 // indirect
	github.com/go-viper/mapstructure/v2 v2.4.0 // indirect
	github.com/goccy/go-json v0.10.5 // indirect
	github.com/golang/freetype v0.0.0-20170609003504-e2365dfdc4a0 // indirect
	github.com/golang/snappy v1.0.0 // indirect
	github.com/google/flatbuffers v25.2.10+incompatible // indirect
	github.com/google/go-cmp v0.7.0 // indirect
	github.com/google/jsonschema-go v0.4.2 // indirect
	github.com/google/pprof v0.0.0-20250607225305-033d6d78b36a // indirect
	github.com/google/uuid v1.6.0 // indirect
	github.com/hamba/avro/v2 v2.29.0 // indirect
	github.com/jinzhu/inflection v1.0.0 // indirect
	github.com/jinzhu/now v1.1.5 // indirect
	github.com/joho/godotenv v1.5.1 // indirect
	github.com/json-iterator/go v1.1.12 // indirect
	github.com/klauspost/compress v1.18.2 // indirect
	github.com/klauspost/cpuid/v2 v2.3.0 // indirect
	github.com/lithammer/dedent v1.1.0 // indirect
	github.com/lucasb-eyer/go-colorful v1.3.0 // indirect
	github.com/mark3labs/mcp-go v0.48.0 // indirect
	github.com/mattn/go-runewidth v0.0.19 // indirect
	github.com/mazznoer/csscolorparser v0.1.5 // indirect
	github.com/modern-go/concurrent v0.0.0-20180306012644-bacd9c7ef1dd // indirect
	github.com/modern-go/reflect2 v1.0.2 // indirect
	github.com/munnerz/goautoneg v0.0.0-20191010083416-a7dc8b61c822 // indirect
	github.com/ncruces/go-sqlite3 v0.34.0 // indirect
	github.com/ncruces/go-sqlite3-wasm/v2 v2.1.35300 // indirect
	github.com/ncruces/go-sqlite3/gormlite v0.34.0 // indirect
	github.com/ncruces/julianday v1.0.0 // indirect
	github.com/oklog/ulid v1.3.1 // indirect
	github.com/oklog/ulid/v2 v2.1.0 // indirect
	github.com/olekukonko/tablewriter v0.0.5 // indirect
	github.com/orsinium-labs/enum v1.4.0 // indirect
	github.com/pancsta/cview v1.5.23 // indirect
	github.com/parquet-go/parquet-go v0.24.0 // indirect
	github.com/patrickmn/go-cache v2.1.0+incompatible // indirect
	github.com/pierrec/lz4/v4 v4.1.22 // indirect
	github.com/pkg/errors v0.9.1 // indirect
	github.com/planetscale/vtprotobuf v0.6.1-0.20240319094008-0393e58bdf10 // indirect
	github.com/polarsignals/frostdb v0.0.0-20250728125857-906ebbaef267 // indirect
	github.com/polarsignals/iceberg-go v0.0.0-20240502213135-2ee70b71e76b // indirect
	github.com/polarsignals/wal v0.0.0-20240619104840-9da940027f9c // indirect
	github.com/prometheus/client_golang v1.22.0 // indirect
	github.com/prometheus/client_model v0.6.2 // indirect
	github.com/prometheus/common v0.64.0 // indirect
	github.com/prometheus/procfs v0.16.1 // indirect
	github.com/rivo/uniseg v0.4.7 // indirect
	github.com/soheilhy/cmux v0.1.5 // indirect
	github.com/spf13/cast v1.7.1 // indirect
	github.com/stoewer/go-strcase v1.3.1 // indirect
	github.com/teivah/onecontext v1.3.0 // indirect
	github.com/thanos-io/objstore v0.0.0-20240818203309-0363dadfdfb1 // indirect
	github.com/vmihailenco/msgpack/v5 v5.4.1 // indirect
	github.com/vmihailenco/tagparser/v2 v2.0.0 // indirect
	github.com/yosida95/uritemplate/v3 v3.0.2 // indirect
	github.com/yuin/goldmark v1.7.4 // indirect
	github.com/zeebo/xxh3 v1.0.2 // indirect
	github.com/zyedidia/clipper v0.1.1 // indirect
	go.etcd.io/bbolt v1.3.6 // indirect
	go.opentelemetry.io/auto/sdk v1.2.1 // indirect
	go.opentelemetry.io/otel v1.42.0 // indirect
	go.opentelemetry.io/otel/metric v1.42.0 // indirect
	go.opentelemetry.io/otel/trace v1.42.0 // indirect
	golang.org/x/crypto v0.50.0 // indirect
	golang.org/x/exp v0.0.0-20250606033433-dcc06ee1d476 // indirect
	golang.org/x/image v0.20.0 // indirect
	golang.org/x/net v0.52.0 // indirect
	golang.org/x/sync v0.20.0 // indirect
	golang.org/x/sys v0.43.0 // indirect
	golang.org/x/term v0.42.0 // indirect
	golang.org/x/text v0.36.0 // indirect
	golang.org/x/xerrors v0.0.0-20240903120638-7835f813f4da // indirect
	google.golang.org/protobuf v1.36.11 // indirect
	gorm.io/datatypes v1.2.7 // indirect
	gorm.io/driver/mysql v1.5.6 // indirect
	gorm.io/gorm v1.31.1 // indirect
	oss.terrastruct.com/d2 v0.7.1 // indirect
	oss.terrastruct.com/util-go v0.0.0-20250213174338-243d8661088a // indirect
)

replace github.com/pancsta/asyncmachine-go => /repo
