module verif

go 1.25.0

require (
	github.com/anishathalye/porcupine v1.3.0
	github.com/pancsta/asyncmachine-go v0.0.0
)

replace github.com/pancsta/asyncmachine-go => /repo
