// Package gen generates schemas, mutation histories and handler tables. The
// generated values are plain data (JSON-serialisable) so that they can be
// written into witnesses and replayed.
package gen

import (
	"fmt"
	"math/rand/v2"
	"sort"
	"strings"

	am "github.com/pancsta/asyncmachine-go/pkg/machine"
)

var AllNames = []string{"A", "B", "C", "D", "E", "F", "G", "H", "I", "J", "K", "L", "M", "N", "O", "P", "Q", "R", "S", "T"}

type StateSpec struct {
	Auto    bool     `json:"auto,omitempty"`
	Multi   bool     `json:"multi,omitempty"`
	Require []string `json:"require,omitempty"`
	Add     []string `json:"add,omitempty"`
	Remove  []string `json:"remove,omitempty"`
	After   []string `json:"after,omitempty"`
}

// SchemaSpec is a schema as data. Names is the state order passed to the
// machine (Exception is appended by the machine itself when missing).
type SchemaSpec struct {
	Names  []string             `json:"names"`
	States map[string]StateSpec `json:"states"`
}

func (s SchemaSpec) Schema() am.Schema {
	ret := am.Schema{}
	for _, n := range s.Names {
		st := s.States[n]
		ret[n] = am.State{
			Auto: st.Auto, Multi: st.Multi,
			Require: append(am.S(nil), st.Require...),
			Add:     append(am.S(nil), st.Add...),
			Remove:  append(am.S(nil), st.Remove...),
			After:   append(am.S(nil), st.After...),
		}
	}
	return ret
}

// SchemaShuffled builds the same schema literal with a different map insertion
// order and differently ordered names.
func (s SchemaSpec) SchemaShuffled(r *rand.Rand) am.Schema {
	names := append([]string(nil), s.Names...)
	r.Shuffle(len(names), func(i, j int) { names[i], names[j] = names[j], names[i] })
	ret := am.Schema{}
	for _, n := range names {
		st := s.States[n]
		ret[n] = am.State{
			Auto: st.Auto, Multi: st.Multi,
			Require: append(am.S(nil), st.Require...),
			Add:     append(am.S(nil), st.Add...),
			Remove:  append(am.S(nil), st.Remove...),
			After:   append(am.S(nil), st.After...),
		}
	}
	return ret
}

func (s SchemaSpec) String() string {
	var sb strings.Builder
	for _, n := range s.Names {
		st := s.States[n]
		sb.WriteString(n)
		if st.Auto {
			sb.WriteString("~auto")
		}
		if st.Multi {
			sb.WriteString("~multi")
		}
		for _, kv := range []struct {
			k string
			v []string
		}{{"req", st.Require}, {"add", st.Add}, {"rem", st.Remove}, {"aft", st.After}} {
			if len(kv.v) > 0 {
				fmt.Fprintf(&sb, " %s=%s", kv.k, strings.Join(kv.v, ","))
			}
		}
		sb.WriteString("; ")
	}
	return sb.String()
}

// HasRelations reports whether any state has any relation or flag.
func (s SchemaSpec) HasRelations() bool {
	for _, st := range s.States {
		if st.Auto || st.Multi || len(st.Require)+len(st.Add)+len(st.Remove)+len(st.After) > 0 {
			return true
		}
	}
	return false
}

type SchemaOpts struct {
	MinStates, MaxStates int
	// per ordered pair probabilities
	PRequire, PAdd, PRemove, PAfter float64
	PAuto, PMulti                  float64
	// AcyclicOrder makes After∪Require edges go only from later to earlier
	// names (x.After=[y] only if y<x), so the must-precede graph is acyclic.
	AcyclicOrder bool
	// AcyclicRequire forbids Require cycles.
	AcyclicRequire bool
	// AddChain adds an Add chain of that depth over the first states.
	AddChain int
}

// RandSchema generates a parse-valid schema: no state both Requires and
// Removes the same state, no self references.
func RandSchema(r *rand.Rand, o SchemaOpts) SchemaSpec {
	n := o.MinStates
	if o.MaxStates > o.MinStates {
		n += r.IntN(o.MaxStates - o.MinStates + 1)
	}
	names := append([]string(nil), AllNames[:n]...)
	spec := SchemaSpec{Names: names, States: map[string]StateSpec{}}
	for i, a := range names {
		st := StateSpec{}
		st.Auto = r.Float64() < o.PAuto
		st.Multi = r.Float64() < o.PMulti
		for j, b := range names {
			if i == j {
				continue
			}
			req := r.Float64() < o.PRequire
			if req && (o.AcyclicOrder || o.AcyclicRequire) && j > i {
				req = false
			}
			add := r.Float64() < o.PAdd
			rem := r.Float64() < o.PRemove
			aft := r.Float64() < o.PAfter
			if aft && o.AcyclicOrder && j > i {
				aft = false
			}
			if req && rem {
				if r.IntN(2) == 0 {
					req = false
				} else {
					rem = false
				}
			}
			if add && rem {
				// Parse() drops the Remove; keep one at random
				if r.IntN(2) == 0 {
					add = false
				} else {
					rem = false
				}
			}
			if req {
				st.Require = append(st.Require, b)
			}
			if add {
				st.Add = append(st.Add, b)
			}
			if rem {
				st.Remove = append(st.Remove, b)
			}
			if aft {
				st.After = append(st.After, b)
			}
		}
		spec.States[a] = st
	}
	if o.AddChain > 1 && n >= o.AddChain {
		for i := 0; i+1 < o.AddChain; i++ {
			st := spec.States[names[i]]
			nx := names[i+1]
			if !contains(st.Add, nx) && !contains(st.Remove, nx) {
				st.Add = append(st.Add, nx)
				spec.States[names[i]] = st
			}
		}
	}
	return spec
}

func contains(l []string, s string) bool {
	for _, x := range l {
		if x == s {
			return true
		}
	}
	return false
}

// EnumBits returns the number of bits of the enumeration space for n states
// over Require/Add/Remove pairs plus Multi (and optionally Auto) flags.
func EnumBits(n int, auto bool) int {
	b := n*(n-1)*3 + n
	if auto {
		b += n
	}
	return b
}

// EnumSchema decodes index idx of the enumeration space. ok=false when the
// schema is not parse-valid (Require and Remove on the same pair) or is a
// redundant encoding (Add and Remove on the same pair; Parse drops Remove).
func EnumSchema(n int, auto bool, idx uint64) (SchemaSpec, bool) {
	names := append([]string(nil), AllNames[:n]...)
	spec := SchemaSpec{Names: names, States: map[string]StateSpec{}}
	bit := func() bool {
		b := idx&1 == 1
		idx >>= 1
		return b
	}
	ok := true
	for i, a := range names {
		st := StateSpec{}
		for j, b := range names {
			if i == j {
				continue
			}
			req, add, rem := bit(), bit(), bit()
			if req && rem || add && rem {
				ok = false
			}
			if req {
				st.Require = append(st.Require, b)
			}
			if add {
				st.Add = append(st.Add, b)
			}
			if rem {
				st.Remove = append(st.Remove, b)
			}
		}
		st.Multi = bit()
		if auto {
			st.Auto = bit()
		}
		spec.States[a] = st
	}
	return spec, ok
}

// Subsets returns all non-empty subsets of names (ordered as in names).
func Subsets(names []string) [][]string {
	var ret [][]string
	for m := 1; m < 1<<len(names); m++ {
		var s []string
		for i, n := range names {
			if m&(1<<i) != 0 {
				s = append(s, n)
			}
		}
		ret = append(ret, s)
	}
	return ret
}

func RandSubset(r *rand.Rand, names []string, allowEmpty bool) []string {
	for {
		var s []string
		// bias to small subsets
		p := 0.15 + r.Float64()*0.5
		for _, n := range names {
			if r.Float64() < p {
				s = append(s, n)
			}
		}
		if len(s) > 0 || allowEmpty {
			r.Shuffle(len(s), func(i, j int) { s[i], s[j] = s[j], s[i] })
			return s
		}
	}
}

// Op is one step of a mutation history.
type Op struct {
	Kind   string   `json:"k"` // add remove set toggle adderr canadd canremove
	States []string `json:"s,omitempty"`
	// NoArgs issues the mutation without an args map (duplicate suppression
	// path); otherwise a unique uid argument is attached.
	NoArgs bool `json:"na,omitempty"`
}

func (o Op) String() string {
	return o.Kind + "[" + strings.Join(o.States, " ") + "]"
}

var OpKindsAll = []string{"add", "remove", "set", "toggle", "adderr", "canadd", "canremove"}
var OpKindsMut = []string{"add", "remove", "set"}

func RandOp(r *rand.Rand, names []string, kinds []string) Op {
	k := kinds[r.IntN(len(kinds))]
	if k == "adderr" {
		return Op{Kind: k}
	}
	return Op{Kind: k, States: RandSubset(r, names, false), NoArgs: r.IntN(10) == 0}
}

func RandHistory(r *rand.Rand, names []string, kinds []string, n int) []Op {
	ret := make([]Op, n)
	for i := range ret {
		ret[i] = RandOp(r, names, kinds)
	}
	return ret
}

// Sorted returns a sorted copy.
func Sorted(s []string) []string {
	c := append([]string(nil), s...)
	sort.Strings(c)
	return c
}

// NewRand returns a PCG seeded from the run seed and a per-case stream.
func NewRand(seed, stream uint64) *rand.Rand {
	return rand.New(rand.NewPCG(seed^0x9E3779B97F4A7C15, stream*0xD1342543DE82EF95+1))
}
