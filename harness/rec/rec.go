// Package rec holds the recording monitors: a tracer that logs every callback
// of a machine, and helpers to apply generated ops through the public API.
package rec

import (
	"errors"
	"fmt"
	"slices"
	"sync"
	"sync/atomic"

	am "github.com/pancsta/asyncmachine-go/pkg/machine"

	"verif/gen"
)

// TxRec is the record of one transition as seen by a tracer.
type TxRec struct {
	Seq       int      `json:"seq"`
	TxId      string   `json:"-"`
	Type      string   `json:"type"`
	Called    []string `json:"called"`
	IsAuto    bool     `json:"auto,omitempty"`
	IsCheck   bool     `json:"check,omitempty"`
	IsHealth  bool     `json:"health,omitempty"`
	Accepted  bool     `json:"accepted"`
	Uid       string   `json:"uid,omitempty"`
	QueueTick uint64   `json:"qtick,omitempty"`
	Before    am.Time  `json:"before"`
	After     am.Time  `json:"after"`
	// sampled from the machine inside TransitionEnd
	MachTime   am.Time  `json:"mach_time"`
	ActiveEnd  []string `json:"active_end"`
	StatesBef  []string `json:"states_before"`
	Target     []string `json:"target"`
	Enters     []string `json:"enters,omitempty"`
	Exits      []string `json:"exits,omitempty"`
	MachQTick  uint64   `json:"mach_qtick"`
	Callbacks  string   `json:"cb"` // e.g. "ISFE" Init Start Finals End
	SeqInit    int      `json:"-"`
	SeqEnd     int      `json:"-"`
	FinalsTime am.Time  `json:"-"`
	Broken     bool     `json:"broken,omitempty"`
	Args       am.A     `json:"-"`
}

type Event struct {
	Seq  int
	Kind string // init start finals end queued qend hstart hend
	TxId string
	Name string
}

// Tracer records everything. Its own state is behind one mutex.
type Tracer struct {
	*am.TracerNoOp
	Mx     sync.Mutex
	Txs    []*TxRec
	byId   map[string]*TxRec
	Events []Event
	Queued []QueuedRec
	seq    int
	// NoSample disables sampling of the machine inside TransitionEnd
	NoSample bool
	// number of callbacks currently executing (to detect overlap)
	inCb       atomic.Int32
	Overlaps   atomic.Int32
	QueueEnds  atomic.Int32
	OnEnd      func(tx *am.Transition, rec *TxRec)
	SampleMach *am.Machine
}

type QueuedRec struct {
	Seq       int
	Type      string
	Called    []int
	Uid       string
	QueueTick uint64
	IsCheck   bool
	IsAuto    bool
}

func NewTracer(id string) *Tracer {
	return &Tracer{
		TracerNoOp: &am.TracerNoOp{Id: id},
		byId:       map[string]*TxRec{},
	}
}

func uidOf(args am.A) string {
	if args == nil {
		return ""
	}
	if v, ok := args["uid"]; ok {
		if s, ok := v.(string); ok {
			return s
		}
	}
	return ""
}

func (t *Tracer) ev(kind, tx, name string) int {
	t.seq++
	t.Events = append(t.Events, Event{t.seq, kind, tx, name})
	return t.seq
}

func (t *Tracer) get(tx *am.Transition) *TxRec {
	r, ok := t.byId[tx.Id]
	if !ok {
		r = &TxRec{TxId: tx.Id, Seq: len(t.Txs)}
		if tx.Mutation != nil {
			r.Uid = uidOf(tx.Mutation.Args)
			r.IsAuto = tx.Mutation.IsAuto
		}
		t.byId[tx.Id] = r
		t.Txs = append(t.Txs, r)
	}
	return r
}

func (t *Tracer) TransitionInit(tx *am.Transition) {
	if t.inCb.Add(1) > 1 {
		t.Overlaps.Add(1)
	}
	defer t.inCb.Add(-1)
	t.Mx.Lock()
	defer t.Mx.Unlock()
	r := t.get(tx)
	r.Callbacks += "I"
	r.SeqInit = t.ev("init", tx.Id, "")
}

func (t *Tracer) TransitionStart(tx *am.Transition) {
	if t.inCb.Add(1) > 1 {
		t.Overlaps.Add(1)
	}
	defer t.inCb.Add(-1)
	t.Mx.Lock()
	defer t.Mx.Unlock()
	r := t.get(tx)
	r.Callbacks += "S"
	t.ev("start", tx.Id, "")
}

func (t *Tracer) TransitionFinals(tx *am.Transition) {
	if t.inCb.Add(1) > 1 {
		t.Overlaps.Add(1)
	}
	defer t.inCb.Add(-1)
	t.Mx.Lock()
	defer t.Mx.Unlock()
	r := t.get(tx)
	r.Callbacks += "F"
	r.FinalsTime = slices.Clone(tx.TimeAfter)
	t.ev("finals", tx.Id, "")
}

func (t *Tracer) TransitionEnd(tx *am.Transition) {
	if t.inCb.Add(1) > 1 {
		t.Overlaps.Add(1)
	}
	defer t.inCb.Add(-1)
	t.Mx.Lock()
	r := t.get(tx)
	r.Callbacks += "E"
	r.SeqEnd = t.ev("end", tx.Id, "")
	mut := tx.Mutation
	r.Type = mut.Type.String()
	r.Called = slices.Clone(tx.CalledStates())
	r.IsAuto = mut.IsAuto
	r.IsCheck = mut.IsCheck
	r.IsHealth = tx.IsHealth()
	r.Accepted = tx.IsAccepted.Load()
	r.Broken = tx.IsBroken.Load()
	r.Uid = uidOf(mut.Args)
	r.Args = mut.Args
	r.QueueTick = mut.QueueTick
	r.Before = slices.Clone(tx.TimeBefore)
	r.After = slices.Clone(tx.TimeAfter)
	r.StatesBef = slices.Clone(tx.StatesBefore())
	r.Target = slices.Clone(tx.TargetStates())
	r.Enters = slices.Clone(tx.Enters)
	r.Exits = slices.Clone(tx.Exits)
	if !t.NoSample {
		m := tx.Machine
		r.MachTime = m.Time(nil)
		r.ActiveEnd = m.ActiveStates(nil)
		r.MachQTick = m.QueueTick()
	}
	onEnd := t.OnEnd
	t.Mx.Unlock()
	if onEnd != nil {
		onEnd(tx, r)
	}
}

func (t *Tracer) MutationQueued(m am.Api, mut *am.Mutation) {
	t.Mx.Lock()
	defer t.Mx.Unlock()
	t.Queued = append(t.Queued, QueuedRec{
		Seq: t.ev("queued", "", ""), Type: mut.Type.String(),
		Called: slices.Clone(mut.Called), Uid: uidOf(mut.Args),
		QueueTick: mut.QueueTick, IsCheck: mut.IsCheck, IsAuto: mut.IsAuto,
	})
}

func (t *Tracer) HandlerStart(tx *am.Transition, emitter, handler string) {
	t.Mx.Lock()
	defer t.Mx.Unlock()
	t.ev("hstart", tx.Id, handler)
}

func (t *Tracer) HandlerEnd(tx *am.Transition, emitter, handler string) {
	t.Mx.Lock()
	defer t.Mx.Unlock()
	t.ev("hend", tx.Id, handler)
}

func (t *Tracer) QueueEnd(m am.Api) {
	t.QueueEnds.Add(1)
	t.Mx.Lock()
	defer t.Mx.Unlock()
	t.ev("qend", "", "")
}

// Snapshot returns a copy of the transition records.
func (t *Tracer) Snapshot() []*TxRec {
	t.Mx.Lock()
	defer t.Mx.Unlock()
	ret := make([]*TxRec, len(t.Txs))
	for i, r := range t.Txs {
		c := *r
		ret[i] = &c
	}
	return ret
}

func (t *Tracer) Len() int {
	t.Mx.Lock()
	defer t.Mx.Unlock()
	return len(t.Txs)
}

func (t *Tracer) EventsCopy() []Event {
	t.Mx.Lock()
	defer t.Mx.Unlock()
	return slices.Clone(t.Events)
}

// FindUid returns the record of the caller's own transition.
func (t *Tracer) FindUid(uid string) *TxRec {
	t.Mx.Lock()
	defer t.Mx.Unlock()
	for i := len(t.Txs) - 1; i >= 0; i-- {
		if t.Txs[i].Uid == uid && !t.Txs[i].IsAuto {
			c := *t.Txs[i]
			return &c
		}
	}
	return nil
}

var uidCtr atomic.Uint64

func NextUid() string {
	return fmt.Sprintf("u%d", uidCtr.Add(1))
}

var ErrInjected = errors.New("verif injected error")

// Apply issues op on m through the public API. Returns the result and the uid
// carried by the mutation ("" when NoArgs).
func Apply(m am.Api, op gen.Op) (am.Result, string) {
	var args am.A
	uid := ""
	if !op.NoArgs {
		uid = NextUid()
		args = am.A{"uid": uid}
	}
	st := am.S(op.States)
	switch op.Kind {
	case "add":
		return m.Add(st, args), uid
	case "remove":
		return m.Remove(st, args), uid
	case "set":
		return m.Set(st, args), uid
	case "toggle":
		return m.Toggle(st, args), uid
	case "adderr":
		return m.AddErr(ErrInjected, args), uid
	case "canadd":
		return m.CanAdd(st, args), uid
	case "canremove":
		return m.CanRemove(st, args), uid
	}
	panic("unknown op " + op.Kind)
}

// ResStr renders a result.
func ResStr(r am.Result) string {
	switch r {
	case am.Executed:
		return "Executed"
	case am.Canceled:
		return "Canceled"
	}
	return fmt.Sprintf("Queued(%d)", uint64(r))
}

// TimeEq compares two time vectors.
func TimeEq(a, b am.Time) bool {
	if len(a) != len(b) {
		return false
	}
	for i := range a {
		if a[i] != b[i] {
			return false
		}
	}
	return true
}

// ActiveFromTime returns the names with odd ticks.
func ActiveFromTime(names am.S, t am.Time) []string {
	var ret []string
	for i, v := range t {
		if v%2 == 1 && i < len(names) {
			ret = append(ret, names[i])
		}
	}
	return ret
}

func SameSet(a, b []string) bool {
	if len(a) != len(b) {
		return false
	}
	m := map[string]int{}
	for _, x := range a {
		m[x]++
	}
	for _, x := range b {
		m[x]--
	}
	for _, v := range m {
		if v != 0 {
			return false
		}
	}
	return true
}

func Has(l []string, s string) bool { return slices.Contains(l, s) }

// Started reports whether a transition carrying uid has been initiated.
func (t *Tracer) Started(uid string) bool {
	t.Mx.Lock()
	defer t.Mx.Unlock()
	for i := len(t.Txs) - 1; i >= 0; i-- {
		if t.Txs[i].Uid == uid {
			return true
		}
	}
	return false
}
