// Package core is the driver shared by all property checks: it generates the
// case list (a pure function of seed and tier), runs the cases in child
// processes (so that a process-fatal error is attributed to the case that was
// running), collects what the monitors observed, judges violations against
// known_findings.json, writes the evidence file and sets the exit code.
package core

import (
	"bufio"
	"bytes"
	"crypto/sha1"
	"encoding/hex"
	"encoding/json"
	"flag"
	"fmt"
	"hash/fnv"
	"os"
	"os/exec"
	"path/filepath"
	"runtime"
	"runtime/debug"
	"sort"
	"strconv"
	"strings"
	"sync"
	"syscall"
	"time"
)

// CaseDesc describes one case. The list of cases is a pure function of
// (seed, tier); P carries explicit parameters for directed cases and replays.
type CaseDesc struct {
	ID   string          `json:"id"`
	Kind string          `json:"kind"`
	Seed uint64          `json:"seed"`
	P    json.RawMessage `json:"p,omitempty"`
}

// Violation is one refutation of a clause, with a signature that names the
// clause and the smallest structural feature of the witness.
type Violation struct {
	Sig     string `json:"sig"`
	What    string `json:"what"`
	Witness any    `json:"witness,omitempty"`
}

// CaseResult is what the monitors observed while running one case.
type CaseResult struct {
	Case         CaseDesc         `json:"case"`
	Violations   []Violation      `json:"violations,omitempty"`
	Inconclusive string           `json:"inconclusive,omitempty"`
	Keys         []uint64         `json:"keys,omitempty"`
	Evals        int64            `json:"evals"`
	Counters     map[string]int64 `json:"counters,omitempty"`
	Sample       any              `json:"sample,omitempty"`
}

func (r *CaseResult) Count(name string, n int64) {
	if r.Counters == nil {
		r.Counters = map[string]int64{}
	}
	r.Counters[name] += n
}

// Key registers a distinct non-trivial observation.
func (r *CaseResult) Key(parts ...any) {
	h := fnv.New64a()
	for _, p := range parts {
		fmt.Fprintf(h, "%v|", p)
	}
	r.Keys = append(r.Keys, h.Sum64())
}

// Violate appends a violation; at most 5 per signature are kept per case.
func (r *CaseResult) Violate(sig, what string, witness any) {
	n := 0
	for _, v := range r.Violations {
		if v.Sig == sig {
			n++
		}
	}
	if n >= 5 {
		return
	}
	r.Violations = append(r.Violations, Violation{sig, what, witness})
}

// Engine is implemented by each property check.
type Engine interface {
	Property() string
	// Level is the MANIFEST level category (exploration, fault_enumeration...).
	Level() string
	// Rule describes how cases are generated and what makes one distinct and
	// non-trivial.
	Rule() string
	Cases(seed uint64, tier string) []CaseDesc
	Run(c CaseDesc, tier string) *CaseResult
}

// Optional engine extensions.
type (
	// CaseTimeouter overrides the per-case watchdog (default 120s).
	CaseTimeouter interface{ CaseTimeout(tier string) time.Duration }
	// CrashClassifier turns a process-fatal error into a violation (or nil =
	// inconclusive).
	CrashClassifier interface {
		Crash(c CaseDesc, stderrTail string) *Violation
	}
	// HangClassifier turns a watchdog firing (with goroutine dump) into a
	// violation; nil means inconclusive.
	HangClassifier interface {
		Hang(c CaseDesc, dump string) *Violation
	}
	// Assumptioner adds assumptions to the evidence.
	Assumptioner interface{ Assumptions() []string }
	// Finisher can add cross-case verdicts / coverage keys in the parent.
	Finisher interface {
		Finish(results []*CaseResult, cov map[string]any) []Violation
	}
	// Parallelism overrides the number of children.
	Parallelism interface{ Children(tier string) int }
)

const VerifDir = "/verif"

// outDir: where run directories, replays and evidence go. /verif, unless a
// side run (seed testing against a scratch worktree while something else runs)
// redirects them with VERIF_OUT; known_findings.json is always read from /verif.
func outDir() string {
	if v := os.Getenv("VERIF_OUT"); v != "" {
		return v
	}
	return VerifDir
}

type knownFinding struct {
	Property  string `json:"property"`
	Kind      string `json:"kind"` // finding | fixed
	Signature string `json:"signature"`
	What      string `json:"what"`
	Commit    string `json:"commit,omitempty"`
	Witness   any    `json:"witness,omitempty"`
}

func loadKnown(prop string) []knownFinding {
	b, err := os.ReadFile(filepath.Join(VerifDir, "known_findings.json"))
	if err != nil {
		return nil
	}
	var all struct {
		Findings []knownFinding `json:"findings"`
	}
	if err := json.Unmarshal(b, &all); err != nil {
		fmt.Fprintf(os.Stderr, "known_findings.json: %v\n", err)
		os.Exit(3)
	}
	var ret []knownFinding
	for _, f := range all.Findings {
		if f.Property == prop && f.Kind == "finding" {
			ret = append(ret, f)
		}
	}
	return ret
}

func matchKnown(known []knownFinding, sig string) *knownFinding {
	for i := range known {
		if known[i].Signature == sig {
			return &known[i]
		}
	}
	return nil
}

type line struct {
	T    string      `json:"t"` // start | end
	Case *CaseDesc   `json:"case,omitempty"`
	Res  *CaseResult `json:"res,omitempty"`
}

// Main is the entry point of every check binary.
func Main(e Engine) {
	tier := flag.String("tier", envOr("VERIF_TIER", "quick"), "quick|thorough")
	seedS := flag.String("seed", envOr("VERIF_SEED", "1"), "seed")
	replay := flag.String("replay", "", "replay file")
	child := flag.String("child", "", "i/n (internal)")
	out := flag.String("out", "", "run dir (internal)")
	skip := flag.String("skip", "", "file with case ids to skip (internal)")
	only := flag.String("only", "", "run only cases whose id has this prefix")
	inproc := flag.Bool("inproc", false, "run cases in this process (debug)")
	flag.Parse()
	seed, err := strconv.ParseUint(*seedS, 10, 64)
	if err != nil {
		// tolerate non-numeric seeds
		h := fnv.New64a()
		h.Write([]byte(*seedS))
		seed = h.Sum64()
	}
	if *tier != "quick" && *tier != "thorough" {
		fmt.Fprintln(os.Stderr, "bad tier")
		os.Exit(3)
	}

	if *replay != "" {
		os.Exit(runReplay(e, *replay, *tier))
	}
	if *child != "" {
		runChild(e, *child, *out, *skip, seed, *tier, *only)
		return
	}
	os.Exit(runParent(e, seed, *tier, *only, *inproc))
}

func envOr(k, d string) string {
	if v := os.Getenv(k); v != "" {
		return v
	}
	return d
}

func caseTimeout(e Engine, tier string) time.Duration {
	if ct, ok := e.(CaseTimeouter); ok {
		return ct.CaseTimeout(tier)
	}
	return 120 * time.Second
}

// runCaseGuarded runs one case with a recover and a watchdog. ok=false means
// the watchdog fired (the goroutine is stuck; the process should be replaced).
func runCaseGuarded(e Engine, c CaseDesc, tier string) (res *CaseResult, ok bool, dump string) {
	done := make(chan *CaseResult, 1)
	go func() {
		defer func() {
			if r := recover(); r != nil {
				cr := &CaseResult{Case: c}
				cr.Violate(e.Property()+"/harness-panic", fmt.Sprintf(
					"panic reached the harness goroutine: %v", r),
					string(debug.Stack()))
				done <- cr
			}
		}()
		done <- e.Run(c, tier)
	}()
	select {
	case r := <-done:
		if r == nil {
			r = &CaseResult{Case: c}
		}
		r.Case = c
		return r, true, ""
	case <-time.After(caseTimeout(e, tier)):
		buf := make([]byte, 8<<20)
		n := runtime.Stack(buf, true)
		return nil, false, string(buf[:n])
	}
}

func runChild(e Engine, child, out, skipFile string, seed uint64, tier, only string) {
	var i, n int
	fmt.Sscanf(child, "%d/%d", &i, &n)
	skip := map[string]bool{}
	if skipFile != "" {
		if b, err := os.ReadFile(skipFile); err == nil {
			for _, l := range strings.Split(string(b), "\n") {
				if l != "" {
					skip[l] = true
				}
			}
		}
	}
	f, err := os.OpenFile(filepath.Join(out, fmt.Sprintf("child-%d.jsonl", i)),
		os.O_APPEND|os.O_CREATE|os.O_WRONLY, 0o644)
	if err != nil {
		fmt.Fprintln(os.Stderr, err)
		os.Exit(3)
	}
	w := bufio.NewWriter(f)
	enc := json.NewEncoder(w)
	cases := e.Cases(seed, tier)
	for idx, c := range cases {
		if idx%n != i || skip[c.ID] {
			continue
		}
		if only != "" && !strings.HasPrefix(c.ID, only) {
			continue
		}
		cc := c
		_ = enc.Encode(line{T: "start", Case: &cc})
		w.Flush()
		res, ok, dump := runCaseGuarded(e, c, tier)
		if !ok {
			// stuck: write the dump, let the parent classify and respawn
			_ = os.WriteFile(filepath.Join(out, fmt.Sprintf("hang-%d.dump", i)),
				[]byte(dump), 0o644)
			w.Flush()
			f.Close()
			os.Exit(4)
		}
		_ = enc.Encode(line{T: "end", Res: res})
		w.Flush()
	}
	w.Flush()
	f.Close()
}

func runReplay(e Engine, path, tier string) int {
	b, err := os.ReadFile(path)
	if err != nil {
		fmt.Fprintln(os.Stderr, err)
		return 3
	}
	var rp struct {
		Case CaseDesc `json:"case"`
		Tier string   `json:"tier"`
	}
	if err := json.Unmarshal(b, &rp); err != nil {
		fmt.Fprintln(os.Stderr, err)
		return 3
	}
	if rp.Tier != "" {
		tier = rp.Tier
	}
	res, ok, dump := runCaseGuarded(e, rp.Case, tier)
	if !ok {
		fmt.Println("replay: watchdog fired\n" + dump)
		return 1
	}
	js, _ := json.MarshalIndent(res, "", " ")
	fmt.Println(string(js))
	if len(res.Violations) > 0 {
		return 1
	}
	return 0
}

func runParent(e Engine, seed uint64, tier, only string, inproc bool) int {
	t0 := time.Now()
	prop := e.Property()
	cases := e.Cases(seed, tier)
	if len(cases) == 0 {
		fmt.Println("no cases generated")
		return 3
	}
	ids := map[string]bool{}
	for _, c := range cases {
		if ids[c.ID] {
			fmt.Printf("duplicate case id %s\n", c.ID)
			return 3
		}
		ids[c.ID] = true
	}
	runDir := filepath.Join(outDir(), ".build", "run", prop+"-"+tier)
	_ = os.RemoveAll(runDir)
	if err := os.MkdirAll(runDir, 0o755); err != nil {
		fmt.Println(err)
		return 3
	}

	var results []*CaseResult
	var extra []*CaseResult // synthesized results for crashes / hangs
	if inproc {
		for _, c := range cases {
			if only != "" && !strings.HasPrefix(c.ID, only) {
				continue
			}
			r, ok, dump := runCaseGuarded(e, c, tier)
			if !ok {
				fmt.Println("watchdog:\n" + dump)
				return 3
			}
			results = append(results, r)
		}
	} else {
		n := runtime.NumCPU()
		if p, ok := e.(Parallelism); ok {
			n = p.Children(tier)
		}
		if n > len(cases) {
			n = len(cases)
		}
		if n < 1 {
			n = 1
		}
		var mx sync.Mutex
		var wg sync.WaitGroup
		for i := 0; i < n; i++ {
			wg.Add(1)
			go func(i int) {
				defer wg.Done()
				rs, ex := superviseChild(e, i, n, runDir, seed, tier, only)
				mx.Lock()
				results = append(results, rs...)
				extra = append(extra, ex...)
				mx.Unlock()
			}(i)
		}
		wg.Wait()
	}
	results = append(results, extra...)
	sort.Slice(results, func(i, j int) bool {
		return results[i].Case.ID < results[j].Case.ID
	})

	// aggregate
	cov := map[string]any{}
	var evals int64
	keys := map[uint64]struct{}{}
	counters := map[string]int64{}
	var samples []any
	inconcl := 0
	var inconclWhy []string
	type vio struct {
		v Violation
		c CaseDesc
	}
	var vios []vio
	for _, r := range results {
		evals += r.Evals
		for _, k := range r.Keys {
			keys[k] = struct{}{}
		}
		for k, v := range r.Counters {
			if strings.HasPrefix(k, "_") {
				continue // private to the engine's Finish
			}
			counters[k] += v
		}
		if r.Sample != nil && len(samples) < 4 {
			samples = append(samples, r.Sample)
		}
		if r.Inconclusive != "" {
			inconcl++
			if len(inconclWhy) < 5 {
				inconclWhy = append(inconclWhy, r.Case.ID+": "+r.Inconclusive)
			}
		}
		for _, v := range r.Violations {
			vios = append(vios, vio{v, r.Case})
		}
	}
	if f, ok := e.(Finisher); ok {
		for _, v := range f.Finish(results, cov) {
			vios = append(vios, vio{v, CaseDesc{ID: "finish", Kind: "finish"}})
		}
	}

	// judge
	known := loadKnown(prop)
	knownSeen := map[string]int{}
	newSigs := map[string]int{}
	exit := 0
	_ = os.MkdirAll(filepath.Join(outDir(), "replays"), 0o755)
	for _, x := range vios {
		if k := matchKnown(known, x.v.Sig); k != nil {
			knownSeen[k.Signature]++
			continue
		}
		newSigs[x.v.Sig]++
		if newSigs[x.v.Sig] > 3 {
			continue
		}
		exit = 1
		rp := map[string]any{
			"property": prop, "tier": tier, "seed": seed, "case": x.c,
			"violation": x.v,
		}
		js, _ := json.MarshalIndent(rp, "", " ")
		sum := sha1.Sum(js)
		path := filepath.Join(outDir(), "replays",
			prop+"-"+hex.EncodeToString(sum[:6])+".json")
		_ = os.WriteFile(path, js, 0o644)
		fmt.Printf("VIOLATION property=%s replay=%s\n", prop, path)
		fmt.Printf("  signature=%s case=%s :: %s\n", x.v.Sig, x.c.ID,
			trunc(x.v.What, 400))
	}
	for _, k := range known {
		if knownSeen[k.Signature] > 0 {
			fmt.Printf("KNOWN-FINDING: property=%s %s (%s; observed %d times this run)\n",
				prop, k.Signature, k.What, knownSeen[k.Signature])
		} else {
			fmt.Printf("note: listed finding %s was not observed in this run\n",
				k.Signature)
		}
	}

	// evidence
	cov["evaluations"] = evals
	cov["distinct_nontrivial"] = len(keys)
	cov["rule"] = e.Rule()
	if len(samples) == 0 {
		samples = append(samples, cases[0])
	}
	cov["samples"] = samples
	cov["cases"] = len(results)
	cov["counters"] = counters
	cov["inconclusive_cases"] = inconcl
	if len(inconclWhy) > 0 {
		cov["inconclusive_examples"] = inconclWhy
	}
	ks := map[string]int{}
	for k, v := range knownSeen {
		ks[k] = v
	}
	cov["known_findings_observed"] = ks
	ns := map[string]int{}
	for k, v := range newSigs {
		ns[k] = v
	}
	cov["violation_signatures"] = ns
	var assumptions []string
	if a, ok := e.(Assumptioner); ok {
		assumptions = a.Assumptions()
	}
	ev := map[string]any{
		"property_id": prop, "tier": tier, "seed": seed, "level": e.Level(),
		"coverage": cov, "assumptions": assumptions,
		"wall_s":     time.Since(t0).Seconds(),
		"violations": len(newSigs),
	}
	js, _ := json.MarshalIndent(ev, "", " ")
	_ = os.MkdirAll(filepath.Join(outDir(), "evidence"), 0o755)
	if err := os.WriteFile(filepath.Join(outDir(), "evidence", prop+".json"),
		js, 0o644); err != nil {
		fmt.Println(err)
		return 3
	}

	fmt.Printf("%s tier=%s seed=%d cases=%d evaluations=%d distinct_nontrivial=%d "+
		"inconclusive=%d known=%d new=%d wall=%.1fs\n", prop, tier, seed,
		len(results), evals, len(keys), inconcl, len(knownSeen), len(newSigs),
		time.Since(t0).Seconds())
	if exit == 0 && (evals == 0 || len(keys) < 2) {
		fmt.Println("check broken: the monitors observed nothing")
		return 3
	}
	if exit == 0 && inconcl*2 > len(results) {
		fmt.Println("check broken: most cases inconclusive")
		return 3
	}
	return exit
}

func trunc(s string, n int) string {
	if len(s) > n {
		return s[:n] + "..."
	}
	return s
}

// superviseChild runs child i until its share of cases is done, respawning
// after crashes and hangs.
func superviseChild(e Engine, i, n int, runDir string, seed uint64, tier, only string) (
	results []*CaseResult, extra []*CaseResult,
) {
	prop := e.Property()
	skipPath := filepath.Join(runDir, fmt.Sprintf("skip-%d.txt", i))
	logPath := filepath.Join(runDir, fmt.Sprintf("child-%d.jsonl", i))
	done := map[string]bool{}
	for attempt := 0; attempt < 200; attempt++ {
		errPath := filepath.Join(runDir, fmt.Sprintf("child-%d.%d.stderr", i, attempt))
		errF, _ := os.Create(errPath)
		args := []string{
			"-child", fmt.Sprintf("%d/%d", i, n), "-out", runDir,
			"-tier", tier, "-seed", strconv.FormatUint(seed, 10),
			"-skip", skipPath,
		}
		if only != "" {
			args = append(args, "-only", only)
		}
		cmd := exec.Command(os.Args[0], args...)
		cmd.Stdout = errF
		cmd.Stderr = errF
		cmd.Env = append(os.Environ(), "GOTRACEBACK=all")
		cmd.SysProcAttr = &syscall.SysProcAttr{Setpgid: true}
		err := cmd.Run()
		errF.Close()

		// read the log
		started := ""
		var startedCase CaseDesc
		results = results[:0]
		if f, ferr := os.Open(logPath); ferr == nil {
			sc := bufio.NewScanner(f)
			sc.Buffer(make([]byte, 1<<20), 256<<20)
			for sc.Scan() {
				var l line
				if json.Unmarshal(sc.Bytes(), &l) != nil {
					continue
				}
				switch l.T {
				case "start":
					started = l.Case.ID
					startedCase = *l.Case
				case "end":
					if l.Res != nil {
						results = append(results, l.Res)
						done[l.Res.Case.ID] = true
					}
					started = ""
				}
			}
			f.Close()
		}
		if err == nil {
			return results, extra
		}
		// abnormal exit
		if started == "" || done[started] {
			// died outside a case: harness problem
			tail := tailFile(errPath, 4000)
			cr := &CaseResult{Case: CaseDesc{ID: fmt.Sprintf("child-%d-died-%d", i, attempt)}}
			cr.Inconclusive = "child died outside a case: " + tail
			extra = append(extra, cr)
			return results, extra
		}
		cr := &CaseResult{Case: startedCase}
		code := -1
		if ee, ok := err.(*exec.ExitError); ok {
			code = ee.ExitCode()
		}
		if code == 4 {
			dumpPath := filepath.Join(runDir, fmt.Sprintf("hang-%d.dump", i))
			dump, _ := os.ReadFile(dumpPath)
			var v *Violation
			if hc, ok := e.(HangClassifier); ok {
				v = hc.Hang(startedCase, string(dump))
			}
			if v != nil {
				cr.Violations = append(cr.Violations, *v)
			} else {
				cr.Inconclusive = "watchdog fired (no stable-block classification)"
				keep := filepath.Join(runDir, fmt.Sprintf("hang-%s.dump",
					sanitize(started)))
				_ = os.Rename(dumpPath, keep)
			}
		} else {
			tail := tailFile(errPath, 6000)
			var v *Violation
			if cc, ok := e.(CrashClassifier); ok {
				v = cc.Crash(startedCase, tail)
			} else {
				v = &Violation{
					Sig:     prop + "/process-fatal/" + fatalLine(tail),
					What:    "the process died while running this case: " + fatalLine(tail),
					Witness: tail,
				}
			}
			if v != nil {
				cr.Violations = append(cr.Violations, *v)
			} else {
				cr.Inconclusive = "child crashed: " + fatalLine(tail)
			}
		}
		extra = append(extra, cr)
		done[started] = true
		// extend the skip list: everything done so far
		var sb bytes.Buffer
		for id := range done {
			sb.WriteString(id + "\n")
		}
		_ = os.WriteFile(skipPath, sb.Bytes(), 0o644)
	}
	return results, extra
}

func sanitize(s string) string {
	return strings.Map(func(r rune) rune {
		if r == '/' || r == ' ' {
			return '_'
		}
		return r
	}, s)
}

func tailFile(path string, n int) string {
	b, err := os.ReadFile(path)
	if err != nil {
		return ""
	}
	if len(b) > n {
		// prefer the head of a fatal error if present
		if i := bytes.Index(b, []byte("fatal error:")); i >= 0 {
			b = b[i:]
			if len(b) > n {
				b = b[:n]
			}
			return string(b)
		}
		if i := bytes.Index(b, []byte("panic:")); i >= 0 {
			b = b[i:]
			if len(b) > n {
				b = b[:n]
			}
			return string(b)
		}
		b = b[len(b)-n:]
	}
	return string(b)
}

func fatalLine(tail string) string {
	for _, l := range strings.Split(tail, "\n") {
		if strings.HasPrefix(l, "fatal error:") || strings.HasPrefix(l, "panic:") ||
			strings.HasPrefix(l, "runtime:") {
			return strings.TrimSpace(trunc(l, 120))
		}
	}
	return "unknown"
}
