package core

import (
	"regexp"
	"runtime"
	"strings"
)

// GoroutineInfo is one goroutine of a runtime stack dump.
type GoroutineInfo struct {
	State string
	// RepoFunc is the innermost frame inside the module under test ("" if none).
	RepoFunc string
	// HarnessOnly: no frame of the module under test
	Frames []string
}

const repoPrefix = "github.com/pancsta/asyncmachine-go/"

var reHead = regexp.MustCompile(`^goroutine \d+ \[([^\]]+)\]:`)

// ParseDump splits a goroutine dump.
func ParseDump(dump string) []GoroutineInfo {
	var ret []GoroutineInfo
	for _, blk := range strings.Split(dump, "\n\n") {
		lines := strings.Split(strings.TrimSpace(blk), "\n")
		if len(lines) == 0 {
			continue
		}
		m := reHead.FindStringSubmatch(lines[0])
		if m == nil {
			continue
		}
		g := GoroutineInfo{State: m[1]}
		for _, l := range lines[1:] {
			if strings.HasPrefix(l, "\t") || strings.HasPrefix(l, "created by") {
				continue
			}
			fn := l
			if i := strings.LastIndex(fn, "("); i > 0 {
				fn = fn[:i]
			}
			g.Frames = append(g.Frames, fn)
			if g.RepoFunc == "" && strings.HasPrefix(fn, repoPrefix) {
				g.RepoFunc = strings.TrimPrefix(fn, repoPrefix)
			}
		}
		ret = append(ret, g)
	}
	return ret
}

// StableBlock classifies a dump taken by the watchdog: it returns the repo
// functions in which goroutines are parked on a lock or a channel operation
// (idle handler loops excluded) and the repo functions that are still making
// progress. A block is stable when blocked is non-empty and active is empty:
// every goroutine inside the module waits for another one that also waits.
func StableBlock(dump string) (blocked, active []string) {
	for _, g := range ParseDump(dump) {
		if g.RepoFunc == "" {
			continue
		}
		st := g.State
		if i := strings.Index(st, ","); i > 0 {
			st = st[:i]
		}
		switch {
		case st == "running" || st == "runnable" || st == "syscall" || st == "sleep" || st == "IO wait":
			active = append(active, g.RepoFunc)
		case st == "select" || st == "select (no cases)":
			// idle handler loop / timers: neither blocked nor active, unless it
			// is a caller waiting inside processHandlers for a handler
			if strings.Contains(g.RepoFunc, "handlerLoop") {
				continue
			}
			blocked = append(blocked, g.RepoFunc)
		case strings.HasPrefix(st, "sync.") || strings.HasPrefix(st, "semacquire") ||
			strings.HasPrefix(st, "chan "):
			blocked = append(blocked, g.RepoFunc)
		}
	}
	return blocked, active
}

// StackAll returns the stacks of all goroutines.
func StackAll() string {
	buf := make([]byte, 8<<20)
	n := runtime.Stack(buf, true)
	return string(buf[:n])
}
