// Package rpcloop builds live Server+Client pairs over a loopback TCP proxy
// that the harness controls (byte counters, cut, stall).
package rpcloop

import (
	"context"
	"fmt"
	"io"
	"net"
	"sync"
	"sync/atomic"
	"time"

	am "github.com/pancsta/asyncmachine-go/pkg/machine"
	arpc "github.com/pancsta/asyncmachine-go/pkg/rpc"
	ssrpc "github.com/pancsta/asyncmachine-go/pkg/rpc/states"
)

var idCtr atomic.Uint64

// Proxy forwards bytes between the client and the server and can be cut.
type Proxy struct {
	ln     net.Listener
	target string
	mx     sync.Mutex
	conns  []net.Conn
	Bytes  atomic.Int64
	Conns  atomic.Int64
	stall  atomic.Bool
	closed atomic.Bool
	refuse atomic.Bool
}

func NewProxy(target string) (*Proxy, error) {
	ln, err := net.Listen("tcp", "127.0.0.1:0")
	if err != nil {
		return nil, err
	}
	p := &Proxy{ln: ln, target: target}
	go p.accept()
	return p, nil
}

func (p *Proxy) Addr() string { return p.ln.Addr().String() }

func (p *Proxy) accept() {
	for {
		c, err := p.ln.Accept()
		if err != nil {
			return
		}
		if p.refuse.Load() {
			_ = c.Close()
			continue
		}
		up, err := net.Dial("tcp", p.target)
		if err != nil {
			_ = c.Close()
			continue
		}
		p.Conns.Add(1)
		p.mx.Lock()
		p.conns = append(p.conns, c, up)
		p.mx.Unlock()
		go p.pipe(c, up)
		go p.pipe(up, c)
	}
}

func (p *Proxy) pipe(dst, src net.Conn) {
	buf := make([]byte, 32<<10)
	for {
		n, err := src.Read(buf)
		if n > 0 {
			for p.stall.Load() && !p.closed.Load() {
				time.Sleep(time.Millisecond)
			}
			p.Bytes.Add(int64(n))
			if _, werr := dst.Write(buf[:n]); werr != nil {
				break
			}
		}
		if err != nil {
			if err != io.EOF {
			}
			break
		}
	}
	_ = dst.Close()
	_ = src.Close()
}

// Cut closes every open connection (the listener stays up).
func (p *Proxy) Cut() {
	p.mx.Lock()
	for _, c := range p.conns {
		_ = c.Close()
	}
	p.conns = nil
	p.mx.Unlock()
}

// Refuse makes the proxy drop new connections.
func (p *Proxy) Refuse(v bool) { p.refuse.Store(v) }

// Stall holds all traffic while true.
func (p *Proxy) Stall(v bool) { p.stall.Store(v) }

func (p *Proxy) Close() {
	p.closed.Store(true)
	_ = p.ln.Close()
	p.Cut()
}

// Pair is a live server+client.
type Pair struct {
	Src    *am.Machine
	S      *arpc.Server
	C      *arpc.Client
	Proxy  *Proxy
	cancel context.CancelFunc
}

type Opts struct {
	Client       arpc.ClientOpts
	PushInterval time.Duration // 0 = pushes disabled
	// PushSet: whether to override the server's default interval
	PushSet bool
	// NoProxy connects the client straight to the server
	NoProxy bool
	// ClientReadyOnly: NewPair waits for the client's Ready only (what a user
	// of the client sees), not for the server's
	ClientReadyOnly bool
	// Tune is called before the client and the server are started
	Tune func(c *arpc.Client, s *arpc.Server)
}

func waitCh(ch <-chan struct{}, d time.Duration) bool {
	select {
	case <-ch:
		return true
	case <-time.After(d):
		return false
	}
}

// NewPair starts a server for src and a client connected to it (through a
// proxy unless NoProxy) and waits until both are Ready. The handshake is
// retried (it occasionally times out on a loaded machine).
func NewPair(src *am.Machine, o Opts) (*Pair, error) {
	var err error
	for i := 0; i < 4; i++ {
		var p *Pair
		if p, err = newPair(src, o); err == nil {
			return p, nil
		}
	}
	return nil, err
}

func newPair(src *am.Machine, o Opts) (*Pair, error) {
	ctx, cancel := context.WithCancel(context.Background())
	id := fmt.Sprintf("v%d", idCtr.Add(1))
	ln, err := net.Listen("tcp", "127.0.0.1:0")
	if err != nil {
		cancel()
		return nil, err
	}
	addr := ln.Addr().String()
	s, err := arpc.NewServer(ctx, addr, id, src, &arpc.ServerOpts{Parent: src})
	if err != nil {
		cancel()
		return nil, err
	}
	s.Listener.Store(&ln)
	if o.PushSet {
		pi := o.PushInterval
		s.PushInterval.Store(&pi)
	}
	p := &Pair{Src: src, S: s, cancel: cancel}
	connAddr := addr
	if !o.NoProxy {
		p.Proxy, err = NewProxy(addr)
		if err != nil {
			cancel()
			return nil, err
		}
		connAddr = p.Proxy.Addr()
	}
	copts := o.Client
	copts.Parent = src
	schema := src.Schema()
	if copts.NoSchema {
		schema = nil
	}
	c, err := arpc.NewClient(ctx, connAddr, id, schema, &copts)
	if err != nil {
		cancel()
		return nil, err
	}
	p.C = c
	if o.Tune != nil {
		o.Tune(c, s)
	}
	s.Start(nil)
	if !waitCh(s.Mach.When1(ssrpc.ServerStates.RpcReady, ctx), 10*time.Second) {
		p.Close()
		return nil, fmt.Errorf("server RpcReady timeout")
	}
	c.Start(nil)
	if !waitCh(c.Mach.When1(ssrpc.ClientStates.Ready, ctx), 10*time.Second) ||
		(!o.ClientReadyOnly && !waitCh(s.Mach.When1(ssrpc.ServerStates.Ready, ctx), 10*time.Second)) {
		p.Close()
		return nil, fmt.Errorf("client/server Ready timeout")
	}
	return p, nil
}

func (p *Pair) Close() {
	if p.C != nil {
		p.C.Mach.Remove1(ssrpc.ClientStates.Start, nil)
	}
	p.S.Mach.Remove1(ssrpc.ServerStates.Start, nil)
	p.cancel()
	if p.Proxy != nil {
		p.Proxy.Close()
	}
}
