# sourced by bin/check and bin/setup: offline Go environment
export GOFLAGS=-mod=mod GOPROXY=off GOSUMDB=off GOTOOLCHAIN=local GONOSUMDB=* GONOSUMCHECK=1 GOFLAGS="-mod=mod"
GO=/root/go/pkg/mod/golang.org/toolchain@v0.0.1-go1.25.0.linux-amd64/bin/go
if [ ! -x "$GO" ]; then
  for c in go1.26 go1.26.8 go; do
    if command -v $c >/dev/null 2>&1; then GO=$(command -v $c); break; fi
  done
fi
export GO
VERIF=/verif
BUILD=$VERIF/.build
mkdir -p $BUILD/bin $BUILD/tmp
export GOTMPDIR=$BUILD/tmp
