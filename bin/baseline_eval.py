#!/usr/bin/env python3
# usage: bin/baseline_eval.py [json] : compares a `go test -json` log of the pinned suite with BASELINE.json's stable_pass list
import json,sys
f=sys.argv[1] if len(sys.argv)>1 else '/verif/.build/baseline.json'
base=json.load(open('/root/.vp/BASELINE.json'))
passed=set(); failed=set()
for l in open(f):
    try: e=json.loads(l)
    except: continue
    if e.get('Test') and e.get('Action') in ('pass','fail'):
        k=e['Package']+'::'+e['Test']
        (passed if e['Action']=='pass' else failed).add(k)
missing=[t for t in base['stable_pass'] if t not in passed]
print('stable_pass:',len(base['stable_pass']),'passed now:',len([t for t in base['stable_pass'] if t in passed]))
print('MISSING/FAILED from stable list (%d):'%len(missing),missing[:25])
