#!/bin/bash
# Runs the repository's pinned test suite with the verif guard OFF and compares with BASELINE.json's stable_pass list.
# usage: bin/baseline_off.sh [outfile]
OUT=${1:-/verif/.build/baseline.json}
mkdir -p /verif/.build
export GOPROXY=off
: > $OUT
for m in $(cat /w/out/gomods.txt); do MF=$(cd /repo/$m && . /w/out/goenv.sh && gomodflag); (cd /repo/$m && go test $MF -json -vet=off -count=1 -timeout 25m ./... >> $OUT 2>>$OUT.err); done
python3 - $OUT <<'PY'
import json,sys
base=json.load(open('/root/.vp/BASELINE.json'))
passed=set()
failed=set()
for l in open(sys.argv[1]):
    try: e=json.loads(l)
    except: continue
    if e.get('Test') and e.get('Action') in ('pass','fail'):
        k=e['Package']+'::'+e['Test']
        (passed if e['Action']=='pass' else failed).add(k)
missing=[t for t in base['stable_pass'] if t not in passed]
print('stable_pass:',len(base['stable_pass']),'passed now:',len([t for t in base['stable_pass'] if t in passed]))
print('MISSING/FAILED from stable list (%d):'%len(missing),missing[:25])
PY
