#!/usr/bin/env python3
"""usage: seedimport.py <ID> <variant> <needs-text> : copies /tmp/seed/<ID>-out/<variant> into /verif/seeded/<ID>-<variant>/ with meta.json"""
import sys, os, shutil, json, glob
pid, var, needs = sys.argv[1], sys.argv[2], sys.argv[3]
src = f"/tmp/seed/{pid}-out/{var}"
dst = f"/verif/seeded/{pid}-{var}"
os.makedirs(dst, exist_ok=True)
for f in glob.glob(src + "/*"):
    if os.path.isfile(f):
        shutil.copy(f, dst)
demo = [os.path.basename(f) for f in glob.glob(dst + "/*_test.go") + glob.glob(dst + "/*.go")]
meta = {
    "property": pid, "variant": var, "needs_to_manifest": needs,
    "demonstration": sorted(set(demo)),
    "confirmed": "bin/seedverify in a scratch worktree of /repo HEAD: demo passes on the unchanged tree, patch applies and builds, demo fails with the patch, the touched package's own tests pass with the patch",
    "detected_by": [], "missed_by": [],
}
json.dump(meta, open(dst + "/meta.json", "w"), indent=1)
print("imported", dst)
