#!/usr/bin/env python3
import json,sys,glob
for f in sys.argv[1:]:
    r=json.load(open(f))
    v=r['violation']; w=v.get('witness')
    print('==',f, v['sig'], r['case']['id']); print(v['what'][:600])
    if isinstance(w,dict):
        for k,x in w.items():
            if k=='txs':
                for t in x: print('  tx',{kk:t[kk] for kk in ['type','called','auto','accepted','states_before','target','active_end'] if kk in t})
            elif k=='tx':
                t=x; print('  tx',{kk:t[kk] for kk in ['type','called','auto','accepted','states_before','target','active_end','before','after'] if kk in t})
            else: print(' ',k,':',json.dumps(x)[:800])
    elif w is not None: print(str(w)[:1500])
