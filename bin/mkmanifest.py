#!/usr/bin/env python3
"""Regenerates /verif/MANIFEST.json from the table below (kept in one place so the manifest is always valid)."""
import json, os, subprocess

V = "/verif"
props = [json.loads(l) for l in open(f"{V}/properties.jsonl")]

# property -> dict(level, text, note, technique, engine, design_ref, thorough(bool))
CHECKS = {
    "C02": dict(
        level="exploration",
        text="Runs the real resolver on every schema over <=2 states (quick: plus a PRNG sample of the 3-state space; "
             "thorough: the whole 3-state space, ~7.7M accepted transitions) from every reachable ordered active list with every "
             "Add/Remove/Set over every subset, plus sampled 4..8-state schemas with cycles, Auto and deep Add chains, and judges "
             "every accepted transition with declarative clauses R1-R5 (Require closure, no active remover+victim, Add targets, "
             "justified activations/deactivations). Exhaustive by execution for n<=3, sampled beyond.",
        note="Handler-less machines; the parsed schema is the reference; permissive excuses (any candidate of Add*(called U before) may block). "
             "Two resolver defects are recorded as known findings and identified by call site through a verif-tagged observation point in parseAdd.",
        technique="runtime monitor: recording tracer + declarative relation oracle over BFS-enumerated and sampled executions",
        engine="seqmach", design_ref="5/C02"),
    "C01": dict(
        level="exploration",
        text="Every schema over <=2 states x every mutation history of length 3 (quick) / 4 (thorough) over all op kinds and subsets is executed "
             "on the real machine; after every step all views (Is1/Not1/Any1, ActiveStates, Tick, Time, Clock, String, StringAll, Inspect, Export) "
             "are compared with each other and with tick parity, and every traced transition is checked against the documented step rule "
             "(0/+1/+2, canceled/check = 0, no decrease, chain continuity, time-after = Machine.Time). Sampled 3..6-state schemas run with "
             "recording handler bindings that veto. Reader stress: 1-8 goroutines take single-call snapshots while 1-3 goroutines mutate, "
             "with yields at the apply/end schedule points; every snapshot must be an element of the recorded time chain and monotone per reader.",
        note="Handler faults excluded (statement). Concurrent readers use single-call snapshot views only; multi-call views are compared at quiescence.",
        technique="runtime monitor: view-agreement + clock-delta oracle over enumerated/sampled histories; snapshot-in-chain oracle under reader stress with schedule-point yields",
        engine="seqmach", design_ref="5/C01"),
    "C03": dict(
        level="exploration",
        text="Generated (schema, handler bindings, history) cases are run once to enumerate the negotiation handler positions that fire and then once per "
             "position with a veto there, plus random veto subsets; each mutation is judged from the caller's side (Result vs Time before/after) "
             "and from its own transition (located by a unique uid): Canceled => nothing moved, Executed => called states active / inactive / "
             "active set = resolved target at the end of that transition, never Queued on an idle machine. CanAdd/CanRemove are checked for "
             "no change of time/queue tick/states and for predicting the same mutation issued next. Disposed, backing-off and over-queue-limit "
             "machines must cancel with no transition.",
        note="Single issuing goroutine on an idle machine; handlers decide from a static table (ignore the check flag); Multi called sets excluded from predictivity. "
             "Half-applied visibility to concurrent observers is monitored by C01's reader stress.",
        technique="runtime monitor: caller-boundary record + recording tracer, per-position veto enumeration",
        engine="seqmach", design_ref="5/C03"),
    "C07": dict(
        level="exploration",
        text="Generated schemas with 1-5 Auto states (Require chains, mutual Remove, Add fans, health states) are driven by mutation histories with all "
             "handlers recorded; the run is repeated with every single veto on an Auto state's Enter/self/state-state handler that fired, every "
             "assignment of such vetoes (<=4 positions, sampled beyond) and foreign vetoes. The tracer sequence is judged: an accepted state-changing "
             "non-health mutation is followed at once by an auto mutation calling exactly the inactive unblocked Auto states; none after auto / unchanged / "
             "health; each called Auto state ends active unless excused by its own veto, a (transitive) Require that is missing or Removed by a candidate, "
             "or a Remove by a surviving/candidate state.",
        note="Which of two mutually Removing Auto states wins is left open; a veto by a handler that does not belong to a called Auto state cancels by the normal rule.",
        technique="runtime monitor: recording tracer + handler log, veto-assignment enumeration, declarative auto-mutation oracle",
        engine="seqmach", design_ref="5/C07"),
    "C14": dict(
        level="exploration",
        text="1-8 goroutines issue generated histories (queued, auto, exception, check, canceled mutations; handlers that veto and enqueue follow-ups) on "
             "machines with 1-3 recording tracers bound through Opts.Tracers, with yields at the queue schedule points. Per tracer: exactly one "
             "Init->Start->(Finals)->End per transition, never interleaved or concurrent, time chain continuous, time-after = Machine.Time sampled in "
             "TransitionEnd, canceled/check report no change, last report = final time, all tracers see the same sequence, every processed mutation was announced.",
        note="Fault-free transitions only; Finals unconstrained for check mutations.",
        technique="runtime monitor: recording tracers + offline checker over the callback event log",
        engine="seqmach", design_ref="5/C14"),
    "C05": dict(
        level="exploration",
        text="Generated schemas with acyclic After/Require graphs (long chains, non-adjacent constraints) and 1-3 recording handler bindings over every "
             "possible handler name run generated histories once without vetoes and once per negotiation position that fired with a veto there. "
             "Per transition the handler log (snapshot taken inside each handler) is judged: phase order Exit<Enter<self/state-state<AnyEnter<End<State<AnyState, "
             "After/Require order inside each phase list, negotiation handlers see states-before and time-before, final handlers see the applied target, "
             "nothing runs and nothing ticks after a veto, final handlers run exactly once per changed state per binding and never for canceled/check transitions.",
        note="Ordering asserted only between states present in the same phase list; partial auto rejections are not vetoes of the transition. One known finding "
             "(After ignored for non-neighbours) is identified structurally: the pair is non-adjacent in the list the resolver sorted; adjacent inversions and Require inversions are reported.",
        technique="runtime monitor: in-handler snapshot log + recording tracer, per-position veto enumeration, declarative lifecycle oracle",
        engine="seqmach", design_ref="5/C05"),
    "C04": dict(
        level="exploration",
        text="Stress: 2-16 goroutines issue Add1/Remove1/Set/Toggle/Eval/CanAdd1 with unique uid args on generated schemas while handlers veto and enqueue "
             "follow-ups, with PRNG yields at the queue schedule points. Scripted: the drainer is parked by a gate at pq.loop-exit / pq.released while 1-3 "
             "other goroutines append and lose the CAS inside the release window (pq.cas-lost hits counted). Monitors: single occupancy of handlers and eval "
             "bodies, no nested/overlapping transitions, queue ticks of appended mutations strictly +1 in processing order, exactly-once conservation of uids, "
             "stranded queue judged at a stable point, WhenQueue(tick) closed for every processed tick (accepted or canceled) and never closed before its own "
             "transition completed, and a porcupine linearizability check of the client-boundary history (Add1/Remove1/Tick per state) against a per-state tick model. "
             "A workload that never finishes is classified from the goroutine dump (calls parked inside the machine, nothing running) as a stable block.",
        note="No handler timeouts, dispose or deadline flush (the statement's exclusions). Remove may return Executed without a transition. porcupine timeout = inconclusive. "
             "Results returned to a caller whose mutation was drained by another goroutine are not trusted by the model (ground truth from the tracer).",
        technique="runtime monitor: schedule-point gates/yields, boundary history + recording tracer, exactly-once/ordering checkers, porcupine linearizability, goroutine-dump stable-block classifier",
        engine="concmach", design_ref="5/C04"),
    "C06": dict(
        level="exploration",
        text="Sequential: generated scripts of 25-60 steps mix subscriptions of every kind (When, WhenNot, WhenTime, WhenTicks, WhenNextActive, WhenQuery, WhenArgs, NewStateCtx; "
             "with and without a cancelable ctx) with mutations, ctx cancelations, schema growth via SetSchema and a final Dispose; after every step every subscription is swept "
             "against the tick chain recorded by a tracer by independent condition code: mustClose (condition held at subscription / at the end of a later transition, ctx ended and an "
             "accepted transition ran, disposed), mustOpen, or either. Race: a subscriber is placed by gates before apply (negotiation handler parked), at tx.applied, at pq.before-subs "
             "and after the transition for every kind incl. NewStateCtx, and WhenQueueEnds is parked at wqe.checked while the queue ends. Directed witnesses of nine repaired defects run on every check.",
        note="Sequential subscriptions are made at quiescence (exact chain index). Nothing is asserted to stay open once its ctx ended; WhenArgs ctx expiry needs a state-changing transition. "
             "WhenQueue is monitored by C04.",
        technique="runtime monitor: subscription table swept against a tracer-recorded tick chain; gate-placed subscriptions at verif schedule points",
        engine="concmach", design_ref="5/C06"),
    "C12": dict(
        level="exploration",
        text="The check binary is built with -race. Each generated program runs in its own process with GORACE=halt_on_error=0 log_path=...: 2-16 goroutines each "
             "issue 20-60 PRNG-chosen calls from a table of ~85 public *Machine methods (mutations, Can*, getters, When*, NewStateCtx, HandlersBind/Detach, TracerBind/Detach, "
             "SemLogger setters, SetTags, Export, OnDispose, OnChange, Eval, Log ...) while transitions with handlers run, with yields at the machine's schedule points and "
             "GOMAXPROCS in {2,8,16}, repeated 3x; a second family feeds a NetworkMachine through NetMachInternal.Lock/UpdateClock from 1-2 writers while 2-8 readers call "
             "~28 of its getters and When*. Every report block in the race log is a violation, deduplicated by the pair of innermost in-module functions; the harness "
             "records which method pairs actually overlapped (coverage figure).",
        note="APIs documented as not thread-safe or misuse are excluded (Resolver(), DisposeForce, Import, TestMockClock, SetSchema, Dispose). The race detector only sees executed accesses.",
        technique="Go race detector (-race, report blocks parsed from per-process logs) over generated concurrent API programs with schedule-point yields",
        engine="concmach", design_ref="5/C12"),
    "C13": dict(
        level="exploration",
        text="Generated disposal scenarios: machines with/without handlers, 0-20 open subscriptions of every kind and state contexts, 0-3 dispose handlers (OnDispose / "
             "amhelp.DisposeBind), 0-4 concurrent mutators; disposal by Dispose, double and concurrent Dispose, parent-ctx cancel, amhelp.Dispose with DisposedHandlers, DisposeForce (idle); "
             "issued from outside, a negotiation handler, a final handler or an Eval body; landing points placed with gates at the dispose.* schedule points and inside handlers "
             "(queue running, mid-negotiation, mid-final, during Eval, during another dispose). After WhenDisposed closes ~45 assertions run: every earlier channel/ctx closed, each "
             "dispose handler ran exactly once, mutations/Can* return Canceled, Is/Any false, When* already closed, ActiveStates/Queue/Clock empty, no other getter panics or blocks "
             "(each probe under a watchdog, block classified from the goroutine dump), and no handlerLoop goroutine is left. A process-fatal error (panic in a mutator goroutine) is "
             "attributed to the running case.",
        note="Parent-ctx cancelation is only used with a handler loop (nothing watches the parent ctx otherwise). WhenDisposed still open after 30s is a violation only if no dispose frame is in the dump. "
             "QueueLimit is raised so that hostile mutators cannot legitimately cancel the state-based disposal mutations.",
        technique="runtime monitor: gate-placed disposal at verif schedule points, post-dispose assertion battery with watchdogs, goroutine-dump inspection, child-process crash attribution",
        engine="concmach", design_ref="5/C13"),
    "C08": dict(
        level="fault_enumeration",
        text="For every generated (schema, handler bindings incl. the Exception handlers, pre-history, target mutation) case a fault-free run enumerates all handler calls of the target "
             "mutation and of the auto/exception transitions in the same call as positions (binding, handler, occurrence). One run per position x {panic(error), panic(string), stall "
             "acknowledged after HandlerTimeout} plus sampled {stall beyond HandlerDeadline, the same position faulting up to 3 times, a second fault in ExceptionEnter/ExceptionState}. "
             "Each run asserts: nothing escapes to the caller, the call returns (else goroutine-dump classification), IsErr/Err carry the panic message, timeouts cancel and are reported, "
             "negotiation faults move no tick of their transition, final-handler faults keep completed finals and roll back the others, parity = activity, and a probe Add1 of a state "
             "with a handler executes afterwards (handler loop alive). Children processes attribute process-fatal errors to the running case.",
        note="Stalls are released by a logical hand-shake (ErrHandlerTimeout seen on ErrInternal), never by timing. Rollback is judged for changed states with a bound final handler; Multi re-entries and "
             "the Exception state are left free; the state after the fault is the time-before of the following transition. Unbounded persistent faults (a handler that panics for ever) are not cases.",
        technique="fault injection at every enumerated handler position (panic / stall) with post-fault oracle and liveness probe; crash and hang attribution per case",
        engine="faults", design_ref="5/C08"),
    "C09": dict(
        level="exploration",
        text="A live Server+Client pair over a harness-controlled loopback proxy per (sync configuration x push interval x fault script): {schema, no-schema} x {all, allow-list, skip-list} x "
             "{deep, shallow, per-mutation} x PushInterval {0, 1ms, 20ms} x fault {none, cut, cut+refuse, stall}. 1-2 goroutines mutate the source locally (incl. canceled and no-op mutations) while a "
             "client goroutine issues 10-25 mutations through the network machine on disjoint states; the fault lands at a PRNG-chosen call. Once the source stops, the client is Ready again and the "
             "system is stable (>=3 'nothing to push' decisions counted at a verif schedule point after the last change, no bytes in flight; an explicit Sync when pushes are off) the mirror must equal "
             "the source on every synchronised state. An Executed client mutation must have an accepted source transition with the same uid and be visible on the mirror at return. Scripted: a reply "
             "parked at srv.reply.unlocked while a later push overtakes it on the wire. A call that never returns is classified from the goroutine dump.",
        note="Liveness is restated as a stable-state claim; not stable within the watchdog is inconclusive. Canceled results are not judged (the source itself may report Canceled for a mutation another goroutine drained). "
             "Only states both sides track are compared.",
        technique="runtime monitor: fault-injecting proxy + schedule-point counters for stability, mirror-vs-source oracle at quiescence, uid-matched result oracle",
        engine="rpcloop", design_ref="5/C09"),
    "C10": dict(
        level="exploration",
        text="One live Server+Client pair per configuration (1..3 states quick / 1..4 thorough; all | every allow-list | every skip-list; schema-synced | schema-less; deep | shallow | per-mutation) "
             "with pushes disabled. For every vector of per-state tick deltas 0..4 (exhaustive, two passes so that all start parities occur) the source performs the real toggles, the server's "
             "production encoder derives the update against the last pushed snapshot and the client's production decoder + checksum applies it (verif-tagged accessors); the mirror must equal the "
             "source on every synchronised state (parity for shallow) with the right queue and machine ticks. Drift: the mirror is advanced by k ticks (k mod 256 != 0) through a self-consistent fake "
             "message and the next real update must be rejected, then a full Sync must restore equality. Boundary samples: queue-tick gaps around 2^16, tick deltas around 2^16 and 2^32, machine-tick "
             "diffs via Import, per-mutation chains, sources with history before the handshake.",
        note="Exhaustive over the stated delta vectors and configurations by execution; boundary values sampled. Two protocol field-width limits (uint16 queue-tick diff, uint32 tick diff) are known findings.",
        technique="runtime differential: production encoder -> production decoder on a live pair, mirror vs source oracle, planted-drift rejection test",
        engine="rpcloop", design_ref="5/C10"),
    "C11": dict(
        level="exploration",
        text="Each generated (schema rich in Auto/mutual-Remove/Add-fan/independent-Require structure, static veto table, history) case is executed on 64 fresh "
             "machines in one process - half built from a schema literal with shuffled insertion order - and the fingerprints (Result per step, Machine.Time per "
             "step, handler-call sequence) must be identical; a tenth of the cases is executed again in another child process and compared by the parent.",
        note="One issuing goroutine; random identifiers excluded from the fingerprint. 64 re-executions make a map-order dependence among k>=2 alternatives show with probability >= 1-2^-63.",
        technique="runtime monitor: differential fingerprint across 64 in-process re-executions and across processes",
        engine="seqmach", design_ref="5/C11"),
    "C19": dict(
        level="exploration",
        text="A static scan (go/parser, go/build constraints) finds every exported schema variable of the module (42 today) and generates a registry; "
             "each schema is checked raw (Parse, undefined relation targets, Require cycles by DFS, Require-Remove conflicts, NewCommon with the typed name list) "
             "and then explored with the real machine as transition function: BFS from the empty machine with Add1/Remove1 of every state, judging every reached "
             "active set for Require closure and mutual-Remove exclusivity. Searches that complete below the cap are exhaustive (states/transitions counted); "
             "for the others every mutual-Remove pair and Require edge is explored exhaustively inside its cone of influence and PRNG random walks on the full "
             "machine both check the invariants and validate the cone reduction (projected sets must be reachable in the cone).",
        note="Exhaustive by execution for schemas whose reachable-set count is below the cap (31 of 42 in quick); beyond it exhaustive per cone, with the reduction "
             "runtime-validated, not proved (a projection miss is reported inconclusive). Exception is treated as defined (the machine always adds it). "
             "Four documented mix-in schemas that reference Start without defining it are listed as known findings.",
        technique="runtime exploration: BFS with the real machine as transition function + cone-of-influence BFS + random-walk validation, invariant oracle on every reached set",
        engine="registry", design_ref="5/C19"),
    "C15": dict(
        level="exploration",
        text="A real node.Supervisor (timeouts shrunk to milliseconds, PRNG Min/Max/Warm 0..6, WorkerErrKill 1..3, also Min>Max by field assignment) runs with its TestFork/TestKill seams in "
             "the hands of the harness: gated mode (the fork seam parks until released with nil or an error: fork storms against Max, normalisation and heartbeat rounds while forks are "
             "parked, ErrWorker bursts with tracked addresses, kills), prompt mode (forks succeed at once, only the supervisor's own normalisation asks for forks, errors on several workers "
             "at a time) and workers mode (the seam starts real in-memory node.Workers over loopback RPC that connect and become Ready; workers are stopped, errored, killed). A tracer on "
             "the supervisor machine samples the worker map (verif accessor) at every TransitionEnd: tracked <= Max, no ForkingWorker accepted at Max, PoolStatus / PoolNormalized / worker "
             "WorkStatus groups exclusive, error counts vs KillingWorker mutations carrying the address; verif data points in PoolReadyEnter/Exit report the ready count the handler saw and "
             "its verdict, judged against min(Min,Max) recomputed by the oracle.",
        note="Group exclusivity over all reachable sets of the shipped supervisor and worker schemas is covered by C19's reachability engine. The excess over Max caused by forks in flight "
             "under external fork storms is a known finding; the same excess caused by the supervisor's own normalisation (prompt mode) is not listed and is reported.",
        technique="runtime monitor: tracer + verif accessors/data points on a live supervisor with harness-driven fork/kill seams and real in-memory workers",
        engine="components", design_ref="5/C15"),
    "C16": dict(
        level="exploration",
        text="A headless am-dbg (tcell simulation screen, its real telemetry server on a loopback port) receives the streams of 1..3 real machines over PRNG schemas (relations, Multi, Auto, "
             "an Err* state, a handler that issues follow-up mutations so that mutations are queued, Can* checks streamed or not) driven by PRNG histories; every source also carries an "
             "independent recording tracer. After the stream arrived (count-based wait across the server's debounce) the N-th executed record is compared with the N-th traced transition "
             "(id, clocks, accepted/check/auto), the derived data (TimeSum, TimeDiff, added/removed, descending Errors) with what consecutive records imply, TxIndex / TxAtMachTime / "
             "TxAtQueueTick / HadErrSinceTx with a linear scan over the same arrays for every record (ids are also looked up before their records arrive), an export (verif accessor to the "
             "dialog's export) with the records of a second debugger started from the file, and PRNG command sequences (UserFwd, UserBack, ScrollToTx, filter toggles, forward-then-back) "
             "driven through the debugger machine's own states with the cursor and the filtered view checked after every command against a reference filter predicate. Busy streams keep "
             "the debugger machine occupied across several debounce periods while telemetry keeps arriving.",
        note="Lookups are compared with a scan over the debugger's own arrays; single steps are judged against the debugger's own filtered view, the view against an independent predicate "
             "(only 'shows what does not match' is judged; a stale view hiding matching records after FilterCanceledTx/FilterQueuedTx switch FilterEmptyTx off is counted in the evidence, "
             "the statement does not cover it). The GC path (tiny MaxMemMb) of the design was not built.",
        technique="runtime monitor: differential between an independent recording tracer and the debugger's client arrays over a live loopback stream; reference cursor/filter model",
        engine="components", design_ref="5/C16"),
    "C17": dict(
        level="exploration",
        text="PRNG schemas (2..6 states, relations, Multi, Auto) are driven by PRNG mutation histories on a handler-less machine under PRNG tracking configurations "
             "(Called/Changed allow- and block-lists of one or several states, TrackRejected, tracked subsets, MaxRecords 1..50, StoreTransitions, QueueBatch 1..100). An independent "
             "tracer on the same machine records every transition; the reference log is the documented matching rule applied to it. The in-memory backend is judged exactly "
             "(one record per matching transition, in order, tracked times equal to the machine's time, count = min(matching, MaxRecords)); bbolt, badger and gorm/sqlite are judged against "
             "the same reference after Sync and a settled record count (no record lost, duplicated, reordered or invented; the newest min(matching, MaxRecords) kept; retained count within a "
             "stated multiple of MaxRecords after rotation had three further batches to act). FindLatest with Active/Inactive/Activated/Deactivated, two-state and state+range queries, "
             "MTimeSum and HTime ranges and the *Between helpers are compared record by record with a reference evaluator over the backend's own list (three-valued where the godoc leaves a "
             "choice). Persistent stores are also stopped and reopened for the same machine (paced: one write in flight; burst), and Machine.Export/Import round-trips are checked for ticks, "
             "active states and MachineTick+1 under shuffled verified state orders.",
        note="The matching rule is asserted for one list at a time (both lists set: integrity only). Queries issued while a batch is pending are not judged (bbolt/badger answer from the "
             "newest ID, which is not stored yet). Crash tier: a child process tracking a deterministic workload into a persistent store (paced: one write in flight) is killed with SIGKILL "
             "at a PRNG-chosen Sync report; the store has to reopen, hold at least the records a query showed before the kill, and be a hole-free prefix of the reference. Eight known findings, all in "
             "the persistent backends (gorm never rotates; out-of-order machine-record writes in bursts; gorm's flags right after a reopen).",
        technique="runtime monitor: independent reference tracer + reference log/query evaluator, differential across four backends, reopen scenarios",
        engine="components", design_ref="5/C17"),
    "C18": dict(
        level="exploration",
        text="A source machine is piped to a target with Bind, BindMany, AddFlat+RemoveFlat, BindReady, BindConnected, BindErr and BindAny and driven by PRNG toggle bursts "
             "(1..200 mutations, plain and Multi states, one issuing goroutine). The target is wrapped in an am.Api proxy that counts every forwarded call, records which source "
             "transition forwarded it and in which order the calls reached the target, and can impose a schedule: natural, overtake (an arriving call is held until the next one was "
             "applied: a schedule the Go scheduler may produce, every non-flat event being forwarded in its own goroutine) and busy (the target parked inside a handler during the burst). "
             "Local targets and NetworkMachine targets over a loopback RPC pair. Judged at joint quiescence (every forwarding handler execution seen by the source tracer has been applied "
             "by the proxy, both queues idle): target state active iff source state active, BindAny: equal active sets; no source mutation canceled, errored or blocked; with a stalled "
             "network link the source mutation still returns and the target follows after the stall.",
        note="Flat + local pipes are synchronous and not reordered by the proxy. Divergences are classified by whether the calls reached the target in source order; the reordered "
             "class of the non-flat pipes, the check-then-act class of the flat pipes and BindAny's blocking Set on a network target are known findings (ten signatures).",
        technique="runtime monitor: am.Api proxy with schedule points + source/target tracers, conservation (forwarded = applied) and final-state oracle at quiescence",
        engine="components", design_ref="5/C18"),
    "C20": dict(
        level="exploration",
        text="reflect enumerates every exported method of *Machine, *Event, *Transition, *Mutation, S, Time, *TimeIndex, Clock, Schema and State (a 'surface' case reports how many, "
             "and which are skipped as documented misuse); each is called with tuples from per-type argument domains (empty, nil, duplicate lists, canceled and nil contexts where the godoc "
             "says optional, events bound / without a machine / of the running handler, every Position and MutationType) on machines in the phases fresh, inside a handler (mid-queue), "
             "errored, after SetSchema and disposed, under recover and a watchdog that classifies a goroutine dump. Law cases compare S.* / SAdd / SRem / StatesDiff / StatesShared / "
             "ParseStates / Time.* against set references on PRNG lists; helper cases run AddSync/RemoveSync/Cant*/Ask*/WaitFor* on a machine with vetoing handlers and judge the result "
             "against what then happens to the machine; copy cases mutate every value a getter returns and compare a full snapshot of the machine; JSON cases feed the integration handlers.",
        note="Argument domains are finite samples per type, not the full domain; package-level functions of pkg/machine, pkg/helpers and pkg/integrations are enumerated by a generator (go/parser, run before every build: c20gen) "
             "and called reflectively with the same domains on a fresh and a disposed machine; generic functions cannot be referenced as values and are listed as skipped. Tuples that break a documented relation between arguments (IsTime with a time longer than its states, a Mutation index shorter than its called "
             "indexes, a nil *Event) are excluded and counted. The one timing-dependent scenario (WaitForAll's deadline) is guarded by a control timer and needs all counted trials to agree.",
        technique="runtime monitor: reflection-driven totality fuzzing under recover + watchdog, reference-model laws, copy-isolation snapshots",
        engine="registry", design_ref="5/C20"),
}

NOT_YET = "check not built yet in this round (planned, see DESIGN.md section 5)"

checks = []
na = []
for p in props:
    pid = p["id"]
    c = CHECKS.get(pid)
    if not c:
        na.append({"property_id": pid, "reason": NOT_YET})
        continue
    e = {
        "property_id": pid,
        "quick_cmd": f"bin/check {pid} --tier quick",
        "thorough_cmd": f"bin/check {pid} --tier thorough",
        "evidence_file": f"/verif/evidence/{pid}.json",
        "replay_cmd_template": f"bin/check {pid} --replay {{path}}",
        "engine": c["engine"],
        "level_claimed": {"category": c["level"], "text": c["text"], "design_ref": c["design_ref"]},
        "level_note": c["note"],
        "technique": c["technique"],
    }
    checks.append(e)

hook_commits = subprocess.run(
    ["git", "-C", "/repo", "log", "--format=%H %s", "--grep=^verif:"], capture_output=True, text=True
).stdout.strip().splitlines()

man = {
    "version": 1,
    "setup_cmd": "bin/setup",
    "hooks": {
        "guard": "verif",
        "enable": "go build -tags verif (bin/check builds every check binary from /repo's working tree with -tags verif)",
        "baseline_off_cmd": "for m in $(cat /w/out/gomods.txt); do MF=$(cd /repo/$m && . /w/out/goenv.sh && gomodflag); (cd /repo/$m && go test $MF -json -vet=off -count=1 -timeout 25m ./...); done",
        "source_commits": [l.split()[0] for l in hook_commits],
        "add_only": True,
    },
    "engines": [
        {"name": "core", "path": "harness/core", "serves_properties": [c["property_id"] for c in checks],
         "kind_free_text": "driver: case list = f(seed,tier), child processes per batch with pre-case log, watchdog + crash attribution, judge against known_findings.json, evidence writer"},
        {"name": "seqmach", "path": "harness/{gen,rec,oracle}", "serves_properties": ["C01", "C02", "C03", "C05", "C07", "C11", "C14"],
         "kind_free_text": "schema/history/handler generators, recording tracer, declarative clause oracles, single issuing goroutine"},
        {"name": "concmach", "path": "harness/cmd/{c04,c06,c12,c13}", "serves_properties": ["C04", "C06", "C12", "C13"],
         "kind_free_text": "gates/yields at verif schedule points, client-boundary histories, porcupine model, quiescence and stable-block (goroutine dump) classifier"},
        {"name": "faults", "path": "harness/cmd/c08", "serves_properties": ["C08"],
         "kind_free_text": "handler-position enumeration + fault scripts (panic, acknowledged stall, deadline stall, repeated and nested faults), liveness probe"},
        {"name": "rpcloop", "path": "harness/rpcloop", "serves_properties": ["C09", "C10", "C18"],
         "kind_free_text": "live Server+Client pairs over a harness-controlled loopback proxy (byte counters, cut, stall, refuse), verif-tagged encoder/decoder accessors"},
        {"name": "components", "path": "harness/cmd/{c17,c18,c15,c16}", "serves_properties": ["C15", "C16", "C17", "C18"],
         "kind_free_text": "per-component drivers: history reference log and query evaluator over four backends; pipes proxy; supervisor scenarios; headless debugger"},
        {"name": "registry", "path": "harness/{registry,cmd/c19gen}", "serves_properties": ["C19", "C20"],
         "kind_free_text": "static scan of /repo -> generated Go registry of shipped schemas; BFS/cone explorer"},
    ],
    "checks": checks,
    "not_applicable": na,
    "notes": "All checks are runtime monitors over executions of the real code built from /repo with -tags verif. "
             "Known findings: /verif/known_findings.json. Seeded breaks: /verif/seeded/.",
}
json.dump(man, open(f"{V}/MANIFEST.json", "w"), indent=1)
print("checks:", [c["property_id"] for c in checks], "na:", len(na))
