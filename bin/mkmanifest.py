#!/usr/bin/env python3
"""Regenerates /verif/MANIFEST.json from the table below (kept in one place so the manifest is always valid)."""
import json, os, subprocess

V = "/verif"
props = [json.loads(l) for l in open(f"{V}/properties.jsonl")]

# property -> dict(level, text, note, technique, engine, design_ref, thorough(bool))
CHECKS = {
    "C02": dict(
        level="exploration",
        text="Runs the real resolver on every schema over <=2 states (quick: plus a PRNG sample of the 3-state space; "
             "thorough: the whole 3-state space, ~7.7M accepted transitions) from every reachable ordered active list with every "
             "Add/Remove/Set over every subset, plus sampled 4..8-state schemas with cycles, Auto and deep Add chains, and judges "
             "every accepted transition with declarative clauses R1-R5 (Require closure, no active remover+victim, Add targets, "
             "justified activations/deactivations). Exhaustive by execution for n<=3, sampled beyond.",
        note="Handler-less machines; the parsed schema is the reference; permissive excuses (any candidate of Add*(called U before) may block). "
             "Two resolver defects are recorded as known findings and identified by call site through a verif-tagged observation point in parseAdd.",
        technique="runtime monitor: recording tracer + declarative relation oracle over BFS-enumerated and sampled executions",
        engine="seqmach", design_ref="5/C02"),
}

NOT_YET = "check not built yet in this round (planned, see DESIGN.md section 5)"

checks = []
na = []
for p in props:
    pid = p["id"]
    c = CHECKS.get(pid)
    if not c:
        na.append({"property_id": pid, "reason": NOT_YET})
        continue
    e = {
        "property_id": pid,
        "quick_cmd": f"bin/check {pid} --tier quick",
        "thorough_cmd": f"bin/check {pid} --tier thorough",
        "evidence_file": f"/verif/evidence/{pid}.json",
        "replay_cmd_template": f"bin/check {pid} --replay {{path}}",
        "engine": c["engine"],
        "level_claimed": {"category": c["level"], "text": c["text"], "design_ref": c["design_ref"]},
        "level_note": c["note"],
        "technique": c["technique"],
    }
    checks.append(e)

hook_commits = subprocess.run(
    ["git", "-C", "/repo", "log", "--format=%H %s", "--grep=^verif:"], capture_output=True, text=True
).stdout.strip().splitlines()

man = {
    "version": 1,
    "setup_cmd": "bin/setup",
    "hooks": {
        "guard": "verif",
        "enable": "go build -tags verif (bin/check builds every check binary from /repo's working tree with -tags verif)",
        "baseline_off_cmd": "for m in $(cat /w/out/gomods.txt); do MF=$(cd /repo/$m && . /w/out/goenv.sh && gomodflag); (cd /repo/$m && go test $MF -json -vet=off -count=1 -timeout 25m ./...); done",
        "source_commits": [l.split()[0] for l in hook_commits],
        "add_only": True,
    },
    "engines": [
        {"name": "core", "path": "harness/core", "serves_properties": [c["property_id"] for c in checks],
         "kind_free_text": "driver: case list = f(seed,tier), child processes per batch with pre-case log, watchdog + crash attribution, judge against known_findings.json, evidence writer"},
        {"name": "seqmach", "path": "harness/{gen,rec,oracle}", "serves_properties": ["C01", "C02", "C03", "C05", "C07", "C11", "C14"],
         "kind_free_text": "schema/history/handler generators, recording tracer, declarative clause oracles, single issuing goroutine"},
    ],
    "checks": checks,
    "not_applicable": na,
    "notes": "All checks are runtime monitors over executions of the real code built from /repo with -tags verif. "
             "Known findings: /verif/known_findings.json. Seeded breaks: /verif/seeded/.",
}
json.dump(man, open(f"{V}/MANIFEST.json", "w"), indent=1)
print("checks:", [c["property_id"] for c in checks], "na:", len(na))
